#!/usr/bin/env python3
"""Regenerates MANIFEST.json from checks.json + manifest_notes.json (keeps it valid at all times)."""
import json, os
here = os.path.dirname(os.path.abspath(__file__))
checks = json.load(open(os.path.join(here, 'checks.json')))
notes = json.load(open(os.path.join(here, 'manifest_notes.json')))
props = [json.loads(l) for l in open(os.path.join(here, 'properties.jsonl')) if l.strip()]
claimed = {c['id']: c for c in checks if c.get('quick')}
out_checks = []
for p in props:
    pid = p['id']
    if pid not in claimed or pid in notes.get('not_applicable', {}):
        continue
    n = notes['checks'].get(pid, {})
    out_checks.append({
        "property_id": pid,
        "quick_cmd": "bin/check %s quick" % pid,
        "thorough_cmd": "bin/check %s thorough" % pid,
        "evidence_file": "/verif/evidence/%s.json" % pid,
        "replay_cmd_template": "bin/check --replay {path}",
        "engine": "symgo",
        "level_claimed": {
            "category": "model_checking",
            "text": n.get("text", "Bounded symbolic execution of the real go/ssa of /repo: all feasible paths of the harnesses within the stated bounds are enumerated and every assertion on every path is decided by the SMT solver (unsat = holds for all inputs on that path); counterexamples are replayed natively."),
            "design_ref": n.get("design_ref", "DESIGN.md section 4, " + pid),
        },
        "level_note": n.get("note", "Trusted: go/ssa construction, the symgo interpreter and summaries (self-tested against native execution), z3 4.8.12. Bounded: see evidence 'harnesses[].bounds'."),
        "technique": n.get("technique", "SMT-decided bounded symbolic execution of go/ssa (z3), native replay of models"),
    })
na = []
for p in props:
    pid = p['id']
    if pid in [c['property_id'] for c in out_checks]:
        continue
    na.append({"property_id": pid, "reason": notes.get('not_applicable', {}).get(pid, "check not built yet in this session (design in DESIGN.md section 4); not claimed until a bound has run clean on the unchanged tree")})
m = {
    "version": 1,
    "setup_cmd": "cd /verif/engine && GOFLAGS=-mod=mod GOPROXY=off GOSUMDB=off GOTOOLCHAIN=local go build -o ../bin/symgo ./cmd/symgo && ../bin/symgo selftest",
    "hooks": {
        "guard": "verif",
        "enable": "no source hooks in /repo: harness files (/verif/harness/<pkg>/*.go) are injected per check through go/packages Overlay (engine) and go test -overlay (native replay); the nominal guard name is 'verif'",
        "baseline_off_cmd": "/verif/bin/repo-tests.sh",
        "source_commits": [],
        "add_only": True,
    },
    "engines": [{"name": "symgo", "path": "/verif/engine", "serves_properties": [c['property_id'] for c in out_checks],
                 "kind_free_text": "bounded symbolic executor for go/ssa written for this task (Go, x/tools v0.29.0) + z3 4.8.12 over incremental SMT-LIB2 pipes; native replay via go test -overlay"}],
    "checks": out_checks,
    "not_applicable": na,
    "notes": notes.get("notes", ""),
}
json.dump(m, open(os.path.join(here, 'MANIFEST.json'), 'w'), indent=1)
print("MANIFEST.json: %d checks, %d not_applicable" % (len(out_checks), len(na)))
