#!/bin/sh
# Runs the repository's own test suite (the pinned baseline; no verif build tag,
# no overlay) without touching /repo/go.sum: go.mod/go.sum are copied to a
# scratch directory and passed with -modfile.
set -e
REPO="${VERIF_REPO:-/repo}"
T=$(mktemp -d)
trap 'rm -rf "$T"' EXIT
cp "$REPO/go.mod" "$REPO/go.sum" "$T/"
cd "$REPO"
GOFLAGS=-mod=mod GOPROXY=off GOSUMDB=off GOTOOLCHAIN=local go test -modfile="$T/go.mod" -vet=off -count=1 -timeout 25m "$@" ./...
