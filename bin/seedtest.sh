#!/bin/bash
# seedtest.sh <ID> [tier]: confirm a sub-agent's seeded change in its scratch worktree
# (suite passes with it, demo fails with it and passes without it), then run the
# property's check against /repo with the patch applied and undo it.
ID=$1; TIER=${2:-quick}; PROP=$(echo $ID | sed "s/[a-z]$//")
WT=/tmp/wt/$ID; OUT=/tmp/wt/$ID-out
export GOFLAGS=-mod=mod GOPROXY=off GOSUMDB=off GOTOOLCHAIN=local
set -u
log() { echo "[seed $ID] $*"; }
# recreate the scratch worktree / deliverables from /verif/seeded/<ID> when they are gone
CREATED=0
if [ ! -d $WT ]; then mkdir -p /tmp/wt; git -C /repo worktree add -q --detach $WT HEAD || exit 3; CREATED=1; fi
if [ ! -f $OUT/patch.diff ] && [ -f /verif/seeded/$ID/patch.diff ]; then
  mkdir -p $OUT; cp /verif/seeded/$ID/patch.diff /verif/seeded/$ID/DEMO_DIR.txt $OUT/; cp /verif/seeded/$ID/demo_test.go.txt $OUT/demo_test.go
fi
cleanup() { if [ $CREATED = 1 ]; then git -C /repo worktree remove --force $WT 2>/dev/null; git -C /repo worktree prune; [ "${KEEP_OUT:-0}" = 1 ] || rm -rf $OUT; fi; }
trap cleanup EXIT
[ -f $OUT/patch.diff ] || { log "no patch"; exit 3; }
DEMODIR=$(grep -oE '(test|tokenizers|calculator|csv|io|mustache|variants)[A-Za-z0-9_/]*' $OUT/DEMO_DIR.txt | head -1)
cd $WT || exit 3
git checkout -q . && git clean -fdq
# bring the scratch worktree to /repo's current HEAD (the repo has moved on with fix: commits)
git checkout -q --detach $(git -C /repo rev-parse HEAD) 2>/dev/null
if ! git apply --check $OUT/patch.diff 2>/dev/null; then log "patch does not apply to current HEAD"; exit 4; fi
T=$(mktemp -d); cp go.mod go.sum $T/
RACE=""; grep -q -- "-race" $OUT/DEMO_DIR.txt 2>/dev/null && RACE="-race"
run() { go test $RACE -modfile=$T/go.mod -vet=off -count=1 "$@" 2>&1; }
mkdir -p $DEMODIR; cp $OUT/demo_test.go $DEMODIR/zz_demo_test.go
if run ./$DEMODIR/ | grep -q '^ok'; then BASE=pass; else BASE=fail; fi
git apply $OUT/patch.diff
if run ./$DEMODIR/ | grep -q '^ok'; then WITH=pass; else WITH=fail; fi
rm -f $DEMODIR/zz_demo_test.go
SUITE=$(run ./... | grep -c '^\(FAIL\|---\ FAIL\|panic\)')
rm -rf $T
log "demo without change: $BASE; with change: $WITH; suite failures with change: $SUITE"
if [ "$BASE" != pass ] || [ "$WITH" != fail ] || [ "$SUITE" != 0 ]; then git checkout -q . ; git clean -fdq; log "NOT CONFIRMED"; exit 5; fi
# run the check against the scratch worktree (same tree as /repo HEAD + the patch);
# VERIF_REAL=1 applies the patch to /repo itself instead and undoes it afterwards
if [ "${VERIF_REAL:-0}" = 1 ]; then
  git checkout -q . ; git clean -fdq
  cd /repo && git apply $OUT/patch.diff || exit 6
  cd /verif && VERIF_EVIDENCE_DIR=$OUT timeout 7200 ./bin/check $PROP $TIER > $OUT/check_$TIER.log 2>&1; RC=$?
  git -C /repo checkout -- .
else
  cd /verif && VERIF_REPO=$WT VERIF_EVIDENCE_DIR=$OUT timeout 7200 ./bin/check $PROP $TIER > $OUT/check_$TIER.log 2>&1; RC=$?
  cd $WT && git checkout -q . && git clean -fdq
fi
log "check $TIER exit=$RC: $(grep -c '^VIOLATION' $OUT/check_$TIER.log) violation lines; $(grep '^VIOLATION' -A1 $OUT/check_$TIER.log | grep signature | sed 's/.*signature=//' | head -4 | tr '\n' ' ')"
exit $RC
