#!/bin/bash
# reverttest.sh <commit> <ID> [tier]: revert one "fix:" commit in a scratch worktree of /repo's HEAD
# and run the property's check against it: the check must report the violation again.
C=$1; ID=$2; TIER=${3:-quick}
WT=/tmp/wt/REV_$C
git -C /repo worktree add -q --detach $WT HEAD 2>/dev/null || { cd $WT && git checkout -q --detach $(git -C /repo rev-parse HEAD); }
cd $WT && git checkout -q . && git clean -fdq
if ! git revert --no-commit $C >/dev/null 2>&1; then echo "[revert $C $ID] CONFLICT"; git revert --abort 2>/dev/null; git checkout -q .; git -C /repo worktree remove --force $WT; exit 4; fi
mkdir -p /tmp/wt/REV_out
cd /verif && VERIF_REPO=$WT VERIF_EVIDENCE_DIR=/tmp/wt/REV_out VERIF_REPLAY_DIR=/tmp/wt/REV_out/replays timeout 3600 ./bin/check $ID $TIER > /tmp/wt/REV_out/$C-$ID.log 2>&1; RC=$?
echo "[revert $C $ID] check $TIER exit=$RC: $(grep '^VIOLATION' -A1 /tmp/wt/REV_out/$C-$ID.log | grep signature | sed 's/.*signature=//; s/ paths.*//' | sort -u | head -4 | tr '\n' ' ')"
git -C /repo worktree remove --force $WT
exit $RC
