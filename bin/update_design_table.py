#!/usr/bin/env python3
"""Regenerate the registered-bounds table of DESIGN.md 9.2 in place."""
import subprocess, re
t=subprocess.run(['python3','/verif/bin/bounds_table.py'],capture_output=True,text=True).stdout.strip()
p='/verif/DESIGN.md'; s=open(p).read()
i=s.index('| id | quick tier: harnesses{bounds}')
j=s.index('\n\n',i)
s=s[:i]+t+s[j:]
open(p,'w').write(s)
print('table rows:', t.count('\n')-1)
