#!/bin/bash
# refactortest.sh <Rn> <ID>...: apply a behaviour-preserving refactoring (sub-agent deliverable
# /tmp/wt/<Rn>-out/patch.diff or /verif/refactors/<Rn>/patch.diff) in a scratch worktree and run the
# quick checks of the given properties against it: every one must exit 0 (no false alarm, no engine gap).
R=$1; shift
WT=/tmp/wt/$R; OUT=/tmp/wt/$R-out
TIER=${TIER:-quick}
export GOFLAGS=-mod=mod GOPROXY=off GOSUMDB=off GOTOOLCHAIN=local
CREATED=0
if [ ! -d $WT ]; then mkdir -p /tmp/wt; git -C /repo worktree add -q --detach $WT HEAD || exit 3; CREATED=1; fi
mkdir -p $OUT
[ -f $OUT/patch.diff ] || cp /verif/refactors/$R/patch.diff $OUT/ || exit 3
cleanup() { if [ $CREATED = 1 ]; then git -C /repo worktree remove --force $WT 2>/dev/null; git -C /repo worktree prune; rm -rf $OUT; fi; }
trap cleanup EXIT
cd $WT && git checkout -q . && git clean -fdq
ORIG=$(git rev-parse HEAD)
git checkout -q --detach $(git -C /repo rev-parse HEAD)
if ! git apply --check $OUT/patch.diff 2>/dev/null; then git checkout -q --detach $ORIG; echo "[$R] patch applies only to $ORIG"; fi
git apply $OUT/patch.diff || exit 4
T=$(mktemp -d); cp go.mod go.sum $T/
FAILS=$(go test -modfile=$T/go.mod -vet=off -count=1 ./... 2>&1 | grep -c '^\(FAIL\|---\ FAIL\|panic\)'); rm -rf $T
echo "[$R] suite failures with refactoring: $FAILS"
RC=0
for ID in "$@"; do
  cd /verif && VERIF_REPO=$WT VERIF_EVIDENCE_DIR=$OUT/ev VERIF_REPLAY_DIR=$OUT/replays timeout 7200 ./bin/check $ID $TIER > $OUT/check_$ID.log 2>&1; rc=$?
  echo "[$R] $ID $TIER exit=$rc $(grep -E '^\[' $OUT/check_$ID.log | tail -1)"
  [ $rc != 0 ] && RC=1
done
cd $WT && git checkout -q . && git clean -fdq
exit $RC
