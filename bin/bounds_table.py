#!/usr/bin/env python3
"""Print the registered-bounds table of DESIGN.md 9.2 from checks.json, the committed
quick-tier evidence (paths, wall time) and measurements/thorough_timing_*.txt."""
import json, glob, re, os
V='/verif'
checks=json.load(open(V+'/checks.json'))
timing={}
for f in sorted(glob.glob(V+'/measurements/thorough_timing_*.txt')):
    for l in open(f):
        m=re.match(r'(C\d+) thorough (\S+) (.*?): rc=(\d+) (\d+)s paths=(\d+)', l)
        if m: timing[(m.group(1), m.group(2), m.group(3).strip())]=(int(m.group(5)), int(m.group(6)), int(m.group(4)))
# full thorough runs (bin/check output): "[C01 thorough] H_x map[K:1 L:2]: paths=.. wall=12.3s"
for f in sorted(glob.glob(V+'/measurements/thorough_run_*.log')):
    for l in open(f):
        m=re.match(r'\[(C\d+) thorough\] (H_\w+) map\[(.*?)\]: paths=(\d+) .* wall=([\d.]+)s', l)
        if m:
            params=dict(kv.split(':') for kv in m.group(3).split()) if m.group(3) else {}
            timing[(m.group(1), m.group(2), frozenset(params.items()))]=(int(float(m.group(5))+0.5), int(m.group(4)), 0)
def fmt(h):
    p=h.get('params',{})
    return h['func'][2:]+('{'+','.join('%s=%s'%kv for kv in p.items())+'}' if p else '')
print('| id | quick tier: harnesses{bounds} | paths | wall | thorough tier (measured per harness: seconds) |')
print('|---|---|---|---|---|')
for e in sorted(checks,key=lambda e:e['id']):
    ev=None
    try: ev=json.load(open(V+'/evidence/%s.json'%e['id']))
    except Exception: pass
    paths=wall='?'
    if ev and ev.get('tier')=='quick':
        paths=ev['coverage'].get('states','?'); wall='%.0f s'%ev.get('wall_s',0)
    th=[]
    for h in e['thorough']:
        key=(e['id'],h['func'],' '.join('%s=%s'%kv for kv in h.get('params',{}).items()))
        key2=(e['id'],h['func'],frozenset((k,str(v)) for k,v in h.get('params',{}).items()))
        t=timing.get(key2) or timing.get(key)
        th.append(fmt(h)+(' (%ds)'%t[0] if t else ''))
    print('| %s | %s | %s | %s | %s |'%(e['id'],'; '.join(fmt(h) for h in e['quick']),paths,wall,'; '.join(th)))
