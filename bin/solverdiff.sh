#!/bin/bash
# solverdiff.sh <ID>...: re-run the quick check under z3 4.8.12, z3 5.1.0 (z3-new) and cvc5 and compare
# the number of feasible paths, outcomes and verdicts (same encoding, same exploration).
cd /verif
for ID in "$@"; do
  line="$ID"
  for S in z3 z3-new cvc5; do
    D=$(mktemp -d)
    VERIF_SOLVER=$S VERIF_EVIDENCE_DIR=$D VERIF_REPLAY_DIR=$D/replays timeout 3600 ./bin/check $ID quick > $D/log 2>&1; RC=$?
    P=$(python3 -c "import json;e=json.load(open('$D/$ID.json'));c=e['coverage'];print(c['states'],c['queries']['unknown'],e['violations'],len(c.get('inconclusive',[])))" 2>/dev/null)
    line="$line | $S: exit=$RC paths/unknown/violations/inconclusive=$P"
    rm -rf $D
  done
  echo "$line"
done
