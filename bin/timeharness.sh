#!/bin/bash
# timeharness.sh <ID> <tier> [cap_seconds]: run every harness of a property's tier on its own
# (no replay) under a time cap and print paths / unknowns / wall time: used to choose registered bounds.
ID=$1; TIER=${2:-thorough}; CAP=${3:-1800}
cd /verif
python3 - "$ID" "$TIER" <<'P' > /tmp/th_$$.lst
import json,sys
for e in json.load(open('/verif/checks.json')):
    if e['id']==sys.argv[1]:
        for h in e[sys.argv[2]]:
            print(h['pkg'], h['func'], ' '.join('%s=%s'%kv for kv in h.get('params',{}).items()))
P
while read -r PKG FN PARAMS; do
  S=$(date +%s)
  OUT=$(VERIF_EVIDENCE_DIR=/tmp/th_ev timeout $CAP ./bin/symgo run $PKG $FN $PARAMS 2>&1); RC=$?
  E=$(( $(date +%s) - S ))
  echo "$ID $TIER $FN $PARAMS: rc=$RC ${E}s $(echo "$OUT" | grep '^harness' | sed 's/.*paths=/paths=/' | cut -c1-120) $(echo "$OUT" | grep -c VIOLATION-CANDIDATE) candidates"
done < /tmp/th_$$.lst
rm -f /tmp/th_$$.lst
