package utilities

// C17: character-class maps answer with the latest covering registration.

type c17Ref struct{ id int }

type c17Reg struct {
	s, e rune
	ref  int // 0 = nil reference, 1 = A, 2 = B
}

// c17Endpoint: a low boundary value (forked) or any value in [0x100, 0xFFFF] (solver).
// With FULL=1 every endpoint is fully symbolic in [0, 0xFFFF].
func c17Endpoint(name string) rune {
	if vParam("FULL") == 1 {
		r := vRune(name)
		vAssume(r <= 0xFFFF)
		return r
	}
	switch vChoice(name+".kind", 4) {
	case 0:
		return 0
	case 1:
		return 'a'
	case 2:
		return 0xFF
	}
	r := vRune(name)
	vAssume(vAnd(r >= 0x100, r <= 0xFFFF))
	return r
}

func c17Code(got any, a, b *c17Ref) int {
	if got == nil {
		return 0
	}
	if got == any(a) {
		return 1
	}
	if got == any(b) {
		return 2
	}
	return 3
}

// H_C17_hist: K symbolic registrations / clears, then two symbolic probes.
func H_C17_hist() {
	K := vParam("K")
	m := NewCharReferenceMap()
	a, b := &c17Ref{1}, &c17Ref{2}
	refs := []any{nil, a, b}
	var regs []c17Reg
	k := vChoice("k", K+1)
	for i := 0; i < k; i++ {
		switch vChoice("op", 3) {
		case 0:
			s := c17Endpoint("s")
			e := c17Endpoint("e")
			vAssume(vAnd(s <= e, s <= 0xFFFE))
			ref := vChoice("ref", 3)
			m.AddInterval(s, e, refs[ref])
			regs = append(regs, c17Reg{s, e, ref})
		case 1:
			ref := vChoice("ref", 3)
			m.AddDefaultInterval(refs[ref])
			regs = append(regs, c17Reg{0, 0xFFFE, ref})
		case 2:
			m.Clear()
			regs = nil
		}
	}
	// two look-ups in a row: an answer never depends on what was looked up before
	probes := 2
	if vParam("FULL") == 1 {
		probes = 1 // fully symbolic end points below U+0100 are costly: one look-up
	}
	for probe := 0; probe < probes; probe++ {
		ch := vInt32("ch")
		vAssume(vAnd(ch >= -1, ch <= 0x10FFFF))
		// the map is configured for characters up to U+FFFE
		vAssume(ch <= 0xFFFE)
		exp := 0
		for _, r := range regs {
			in := vAnd(ch >= r.s, ch <= r.e)
			exp = vIteInt(in, r.ref, exp)
		}
		got := c17Code(m.Lookup(ch), a, b)
		vAssert(got == exp, "lookup:latest-covering")
	}
	vDone()
}
