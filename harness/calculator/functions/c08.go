package functions

import (
	"math"
	"time"

	cerrors "github.com/pip-services3-gox/pip-services3-commons-gox/errors"
	"github.com/pip-services3-gox/pip-services3-expressions-gox/variants"
)

// C08: built-in functions compute what their names denote.

func guardedF(f func()) (panicked bool) {
	defer func() {
		if r := recover(); r != nil {
			panicked = true
		}
	}()
	f()
	return false
}

func errCode(err error) string {
	if ae, ok := err.(*cerrors.ApplicationError); ok && ae != nil {
		return ae.Code
	}
	return ""
}

func opsManager(i int) variants.IVariantOperations {
	if i == 0 {
		return variants.NewTypeUnsafeVariantOperations()
	}
	return variants.NewTypeSafeVariantOperations()
}

// arityOK: the valid argument counts of each default function.
func arityOK(name string, n int) bool {
	switch name {
	case "Ticks", "Now", "E", "Pi", "Rnd", "Random", "Null":
		return n == 0
	case "TimeSpan":
		return n == 1 || n == 3 || n == 4 || n == 5
	case "Date":
		return n >= 1 && n <= 7
	case "Min", "Max", "Sum":
		return n >= 2
	case "If":
		return n == 3
	case "Choose":
		return n >= 3
	case "Contains":
		return n == 2
	case "Array":
		return true
	}
	return n == 1
}

func call(f IFunction, params []*variants.Variant, ops variants.IVariantOperations) (r *variants.Variant, err error, panicked bool) {
	panicked = guardedF(func() { r, err = f.Calculate(params, ops) })
	return
}

// H_C08_arity: every function x 0..8 integer arguments x both managers.
func H_C08_arity() {
	c := NewDefaultFunctionCollection()
	f := c.Get(vChoice("fn", c.Length()))
	n := vChoice("argc", 9)
	ops := opsManager(vChoice("manager", 2))
	params := make([]*variants.Variant, n)
	for i := range params {
		params[i] = variants.VariantFromInteger(i + 1)
	}
	r, err, panicked := call(f, params, ops)
	vAssert(!panicked, "call:no-crash")
	if panicked {
		return
	}
	vAssert((r != nil) != (err != nil), "call:result-xor-error")
	if !arityOK(f.Name(), n) {
		vAssert(err != nil, "arity:wrong-count-is-error")
		if err != nil {
			vNote(errCode(err) == "WRONG_PARAM_COUNT", "arity:error-code") // the particular code is not part of the property: recorded only
		}
	}
	vDone()
}

func numArg(t int, tag string) *variants.Variant {
	switch t {
	case 0:
		return variants.VariantFromInteger(vInt(tag))
	case 1:
		return variants.VariantFromLong(vInt64(tag))
	case 2:
		return variants.VariantFromFloat(vF32(tag))
	case 3:
		return variants.VariantFromDouble(vF64(tag))
	case 4:
		return variants.VariantFromBoolean(vBool(tag))
	case 5:
		return variants.EmptyVariant()
	case 6:
		return variants.VariantFromString([]string{"", "2.5", "abc", "7"}[vChoice(tag+".s", 4)])
	case 7:
		return variants.VariantFromTimeSpan(time.Duration(vInt64(tag)))
	}
	return variants.VariantFromArray([]*variants.Variant{variants.VariantFromInteger(vInt(tag))})
}

func sameV(a, b *variants.Variant) bool {
	if a == nil || b == nil {
		return a == b
	}
	if a.Type() != b.Type() {
		return false
	}
	switch a.Type() {
	case variants.Null:
		return true
	case variants.Integer:
		return a.AsInteger() == b.AsInteger()
	case variants.Long:
		return a.AsLong() == b.AsLong()
	case variants.Float:
		return vSameBits32(a.AsFloat(), b.AsFloat())
	case variants.Double:
		return vSameBits64(a.AsDouble(), b.AsDouble())
	case variants.String:
		return a.AsString() == b.AsString()
	case variants.Boolean:
		return a.AsBoolean() == b.AsBoolean()
	case variants.TimeSpan:
		return a.AsTimeSpan() == b.AsTimeSpan()
	case variants.DateTime:
		return a.AsDateTime().Equal(b.AsDateTime())
	}
	return a == b
}

// unary math functions: name -> (host function on the argument converted to Double, result type)
func unaryMath(name string, x float64) (float64, bool) {
	switch name {
	case "Acos":
		return math.Acos(x), true
	case "Asin":
		return math.Asin(x), true
	case "Atan":
		return math.Atan(x), true
	case "Exp":
		return math.Exp(x), true
	case "Log", "Ln":
		return math.Log(x), true
	case "Log10":
		return math.Log10(x), true
	case "Ceil", "Ceiling":
		return math.Ceil(x), true
	case "Floor":
		return math.Floor(x), true
	case "Round":
		return math.Round(x), true
	case "Cos":
		return math.Cos(x), true
	case "Sin":
		return math.Sin(x), true
	case "Tan":
		return math.Tan(x), true
	case "Sqr", "Sqrt":
		return math.Sqrt(x), true
	}
	return 0, false
}

// H_C08_unary: the one-argument numeric functions per IEEE double arithmetic on the converted argument.
func H_C08_unary() {
	c := NewDefaultFunctionCollection()
	names := []string{"Abs", "Acos", "Asin", "Atan", "Exp", "Log", "Ln", "Log10", "Ceil", "Ceiling", "Floor", "Round", "Trunc", "Truncate", "Cos", "Sin", "Tan", "Sqr", "Sqrt"}
	name := names[vChoice("fn", len(names))]
	f := c.FindByName(name)
	ops := opsManager(vChoice("manager", 2))
	at := vChoice("argtype", 9)
	arg := numArg(at, "x")
	r, err, panicked := call(f, []*variants.Variant{arg}, ops)
	vAssert(!panicked, "call:no-crash")
	if panicked {
		return
	}
	vAssert((r != nil) != (err != nil), "call:result-xor-error")
	// the argument converted by the manager; an inapplicable argument must be an error
	var conv *variants.Variant
	var cerr error
	if guardedF(func() { conv, cerr = ops.Convert(arg, variants.Double) }) {
		return
	}
	if name == "Abs" && at <= 3 {
		vAssert(err == nil, "abs:numeric-accepted")
		if err != nil || r == nil {
			return
		}
		vAssert(r.Type() == arg.Type(), "abs:type-preserving")
		if r.Type() != arg.Type() {
			return
		}
		switch at {
		case 0:
			x := arg.AsInteger()
			vAssert(r.AsInteger() == vIteInt(x < 0, -x, x), "abs:integer-value")
		case 1:
			x := arg.AsLong()
			vAssert(r.AsLong() == vIteI64(x < 0, -x, x), "abs:long-value")
		case 2:
			vAssert(vSameBits32(r.AsFloat(), float32(math.Abs(float64(arg.AsFloat())))), "abs:float-value")
		case 3:
			vAssert(vSameBits64(r.AsDouble(), math.Abs(arg.AsDouble())), "abs:double-value")
		}
		vDone()
		return
	}
	if cerr != nil {
		vAssert(err != nil, "unary:inapplicable-argument-is-error")
		vDone()
		return
	}
	vAssert(err == nil, "unary:applicable-argument-accepted")
	if err != nil || r == nil {
		return
	}
	x := conv.AsDouble()
	switch name {
	case "Abs":
		vAssert(r.Type() == variants.Double, "unary:fixed-result-type")
		if r.Type() == variants.Double {
			vAssert(vSameBits64(r.AsDouble(), math.Abs(x)), "unary:value")
		}
	case "Trunc", "Truncate":
		vAssert(r.Type() == variants.Long || r.Type() == variants.Double, "unary:fixed-result-type")
		if r.Type() == variants.Long {
			vAssert(r.AsLong() == int64(math.Trunc(x)), "unary:value")
		} else if r.Type() == variants.Double {
			vAssert(vSameBits64(r.AsDouble(), math.Trunc(x)), "unary:value")
		}
	default:
		want, _ := unaryMath(name, x)
		vAssert(r.Type() == variants.Double, "unary:fixed-result-type")
		if r.Type() == variants.Double {
			vAssert(vSameBits64(r.AsDouble(), want), "unary:value")
		}
	}
	vDone()
}

// H_C08_fold: Min / Max / Sum over all arguments.
func H_C08_fold() {
	c := NewDefaultFunctionCollection()
	name := []string{"Min", "Max", "Sum"}[vChoice("fn", 3)]
	f := c.FindByName(name)
	ops := opsManager(vChoice("manager", 2))
	n := 2 + vChoice("argc", 2)
	params := make([]*variants.Variant, n)
	types := make([]int, n)
	hasString := false
	for i := range types {
		types[i] = []int{0, 3, 5, 6}[vChoice("argtype", 4)]
		if types[i] == 6 {
			hasString = true
		}
	}
	for i := range params {
		if hasString && types[i] == 0 {
			// compared as text with a String argument: formatted by the conversion stub, so concrete
			params[i] = variants.VariantFromInteger([]int{7, -3}[vChoice("cint", 2)])
		} else if hasString && types[i] == 3 {
			params[i] = variants.VariantFromDouble(2.5)
		} else {
			params[i] = numArg(types[i], "x")
		}
	}
	r, err, panicked := call(f, params, ops)
	vAssert(!panicked, "call:no-crash")
	if panicked {
		return
	}
	vAssert((r != nil) != (err != nil), "call:result-xor-error")
	// reference fold: the accumulated value is the first operand of the manager's
	// comparison / addition (its type decides the arithmetic, see C06)
	acc := params[0]
	failed := false
	for i := 1; i < n && !failed; i++ {
		switch name {
		case "Sum":
			s, e := ops.Add(acc, params[i])
			if e != nil || s == nil {
				failed = true
			} else {
				acc = s
			}
		default:
			var cmp *variants.Variant
			var e error
			if name == "Min" {
				cmp, e = ops.More(acc, params[i])
			} else {
				cmp, e = ops.Less(acc, params[i])
			}
			if e != nil || cmp == nil || cmp.Type() != variants.Boolean {
				failed = true
			} else if cmp.AsBoolean() {
				acc = params[i]
			}
		}
	}
	if failed {
		vAssert(err != nil, "fold:inapplicable-argument-is-error")
	} else {
		vAssert(err == nil, "fold:applicable-arguments-accepted")
		if err == nil && r != nil {
			vAssert(sameV(r, acc), "fold:value-over-all-arguments")
		}
	}
	vDone()
}

// H_C08_select: If and Choose.
func H_C08_select() {
	c := NewDefaultFunctionCollection()
	ops := opsManager(vChoice("manager", 2))
	a, b, d := variants.VariantFromInteger(vInt("a")), variants.VariantFromString("b"), variants.VariantFromInteger(vInt("d"))
	if vChoice("fn", 2) == 0 {
		cond := vBool("cond")
		r, err, panicked := call(c.FindByName("if"), []*variants.Variant{variants.VariantFromBoolean(cond), a, b}, ops)
		vAssert(!panicked && err == nil && r != nil, "if:succeeds")
		if r != nil {
			if cond {
				vAssert(r == a, "if:true-selects-second")
			} else {
				vAssert(r == b, "if:false-selects-third")
			}
		}
	} else {
		i := vInt("index")
		vAssume(vAnd(i >= -3, i <= 6))
		params := []*variants.Variant{variants.VariantFromInteger(i), a, b, d}
		r, err, panicked := call(c.FindByName("CHOOSE"), params, ops)
		vAssert(!panicked, "call:no-crash")
		if panicked {
			return
		}
		vAssert((r != nil) != (err != nil), "call:result-xor-error")
		if i >= 1 && i <= 3 {
			vAssert(err == nil && r == params[i], "choose:selects-by-index")
		} else if i != 0 {
			vAssert(err != nil, "choose:index-out-of-range-is-error")
		}
	}
	vDone()
}

// H_C08_misc: constants, clock, random, Empty/Null/Array/Contains, TimeSpan, Date, DayOfWeek.
func H_C08_misc() {
	c := NewDefaultFunctionCollection()
	ops := opsManager(vChoice("manager", 2))
	long := func(tag string) (*variants.Variant, int64) {
		x := vInt64(tag)
		vAssume(vAnd(x >= -(1<<15), x <= 1<<15))
		return variants.VariantFromLong(x), x
	}
	switch vChoice("case", 14) {
	case 0:
		r, err, p := call(c.FindByName("e"), nil, ops)
		vAssert(!p && err == nil && r != nil, "e:succeeds")
		if r != nil && r.Type() == variants.Float {
			vAssert(r.AsFloat() == float32(math.E), "e:value")
		} else if r != nil {
			vAssert(r.Type() == variants.Double && r.AsDouble() == math.E, "e:value")
		}
	case 1:
		r, err, p := call(c.FindByName("PI"), nil, ops)
		vAssert(!p && err == nil && r != nil, "pi:succeeds")
		if r != nil && r.Type() == variants.Float {
			vAssert(r.AsFloat() == float32(math.Pi), "pi:value")
		} else if r != nil {
			vAssert(r.Type() == variants.Double && r.AsDouble() == math.Pi, "pi:value")
		}
	case 2:
		t0 := time.Now()
		r, err, p := call(c.FindByName("Ticks"), nil, ops)
		t1 := time.Now()
		vAssert(!p && err == nil && r != nil, "ticks:succeeds")
		if r != nil {
			vAssert(r.Type() == variants.Long, "ticks:type")
			if r.Type() == variants.Long {
				vAssert(vAnd(r.AsLong() >= t0.Unix(), r.AsLong() <= t1.Unix()), "ticks:within-call-interval")
			}
		}
	case 3:
		t0 := time.Now()
		r, err, p := call(c.FindByName("now"), nil, ops)
		t1 := time.Now()
		vAssert(!p && err == nil && r != nil, "now:succeeds")
		if r != nil {
			vAssert(r.Type() == variants.DateTime, "now:type")
			if r.Type() == variants.DateTime {
				vAssert(vAnd(r.AsDateTime().Unix() >= t0.Unix(), r.AsDateTime().Unix() <= t1.Unix()), "now:within-call-interval")
			}
		}
	case 4:
		name := []string{"Rnd", "Random"}[vChoice("rnd", 2)]
		r, err, p := call(c.FindByName(name), nil, ops)
		vAssert(!p && err == nil && r != nil, "rnd:succeeds")
		if r != nil && r.Type() == variants.Float {
			vAssert(vAnd(r.AsFloat() >= 0, r.AsFloat() < 1), "rnd:in-unit-interval")
		} else if r != nil {
			vAssert(r.Type() == variants.Double && r.AsDouble() >= 0 && r.AsDouble() < 1, "rnd:in-unit-interval")
		}
	case 5:
		arg := numArg(vChoice("argtype", 9), "x")
		r, err, p := call(c.FindByName("Empty"), []*variants.Variant{arg}, ops)
		vAssert(!p && err == nil && r != nil, "empty:succeeds")
		if r != nil {
			vAssert(r.Type() == variants.Boolean && r.AsBoolean() == arg.IsEmpty(), "empty:value")
		}
	case 6:
		r, err, p := call(c.FindByName("Null"), nil, ops)
		vAssert(!p && err == nil && r != nil && r.IsNull(), "null:value")
	case 7:
		a, b := variants.VariantFromInteger(vInt("a")), variants.VariantFromString("s")
		params := []*variants.Variant{a, b}
		r, err, p := call(c.FindByName("Array"), params, ops)
		vAssert(!p && err == nil && r != nil, "array:succeeds")
		if r != nil {
			vAssert(r.Type() == variants.Array && r.Length() == 2, "array:length")
			if r.Type() == variants.Array && r.Length() == 2 {
				vAssert(r.GetByIndex(0) == a && r.GetByIndex(1) == b, "array:elements-in-order")
			}
		}
	case 8:
		strs := []string{"", "a", "ab", "ba", "b"}
		s1, s2 := strs[vChoice("s1", 5)], strs[vChoice("s2", 5)]
		r, err, p := call(c.FindByName("contains"), []*variants.Variant{variants.VariantFromString(s1), variants.VariantFromString(s2)}, opsManager(0))
		vAssert(!p && err == nil && r != nil, "contains:succeeds")
		if r != nil {
			want := false
			for i := 0; i+len(s2) <= len(s1); i++ {
				if s1[i:i+len(s2)] == s2 {
					want = true
				}
			}
			if s1 == "" {
				vAssert(r.Type() == variants.Boolean, "contains:type")
			} else {
				vAssert(r.Type() == variants.Boolean && r.AsBoolean() == want, "contains:value")
			}
		}
	case 9:
		v, x := long("ms")
		r, err, p := call(c.FindByName("TimeSpan"), []*variants.Variant{v}, ops)
		vAssert(!p && err == nil && r != nil, "timespan1:succeeds")
		if r != nil {
			vAssert(r.Type() == variants.TimeSpan, "timespan1:type")
			if r.Type() == variants.TimeSpan {
				vAssert(r.AsTimeSpan().Milliseconds() == x, "timespan1:milliseconds")
			}
		}
	case 10:
		n := 3 + vChoice("argc", 3)
		var params []*variants.Variant
		var xs [5]int64
		for i := 0; i < n; i++ {
			v, x := long("part")
			params = append(params, v)
			xs[i] = x
		}
		r, err, p := call(c.FindByName("TimeSpan"), params, ops)
		vAssert(!p && err == nil && r != nil, "timespan:succeeds")
		if r != nil {
			vAssert(r.Type() == variants.TimeSpan, "timespan:type")
			if r.Type() == variants.TimeSpan {
				want := (((xs[0]*24+xs[1])*60+xs[2])*60+xs[3])*1000 + xs[4]
				vAssert(r.AsTimeSpan().Milliseconds() == want, "timespan:days-hours-minutes-seconds-ms")
			}
		}
	case 11:
		n := 1 + vChoice("argc", 7)
		var params []*variants.Variant
		xs := [7]int{0, 1, 1, 0, 0, 0, 0}
		for i := 0; i < n; i++ {
			x := vInt("part")
			vAssume(vAnd(x >= 1, x <= 1<<20))
			params = append(params, variants.VariantFromInteger(x))
			xs[i] = x
		}
		r, err, p := call(c.FindByName("Date"), params, ops)
		vAssert(!p && err == nil && r != nil, "date:succeeds")
		if r != nil {
			vAssert(r.Type() == variants.DateTime, "date:type")
			if r.Type() == variants.DateTime {
				var want time.Time
				if n == 1 {
					want = time.Unix(int64(xs[0]), 0)
				} else {
					want = time.Date(xs[0], time.Month(xs[1]), xs[2], xs[3], xs[4], xs[5], xs[6], time.Local)
				}
				vAssert(r.AsDateTime().Equal(want), "date:arguments-in-order-with-defaults")
			}
		}
	case 12:
		sec := vInt64("sec")
		vAssume(vAnd(sec >= 0, sec <= 1<<40))
		d := time.Unix(sec, 0)
		r, err, p := call(c.FindByName("DayOfWeek"), []*variants.Variant{variants.VariantFromDateTime(d)}, ops)
		vAssert(!p && err == nil && r != nil, "dayofweek:succeeds")
		if r != nil {
			vAssert(r.Type() == variants.Integer, "dayofweek:type")
			if r.Type() == variants.Integer {
				vAssert(r.AsInteger() == int(d.Weekday()), "dayofweek:value")
				// 1970-01-01 was a Thursday (zone of the process: UTC)
				vAssert(r.AsInteger() == int((sec/86400+4)%7), "dayofweek:counted-from-the-epoch")
			}
		}
	case 13:
		// a date-time carrying its own zone: the day of the week is that of its own calendar
		// date (Monday 2024-01-01, any hour of that day, any whole-minute offset from -12h to +14h)
		hour, min, offMin := vInt("hour"), vInt("min"), vInt("offset-min")
		vAssume(vAnd(vAnd(hour >= 0, hour <= 23), vAnd(min >= 0, min <= 59)))
		vAssume(vAnd(offMin >= -12*60, offMin <= 14*60))
		d := time.Date(2024, time.January, 1, hour, min, 0, 0, time.FixedZone("zone", offMin*60))
		r, err, p := call(c.FindByName("DayOfWeek"), []*variants.Variant{variants.VariantFromDateTime(d)}, ops)
		vAssert(!p && err == nil && r != nil, "dayofweek:succeeds")
		if r != nil && r.Type() == variants.Integer {
			vAssert(r.AsInteger() == 1, "dayofweek:own-zone")
		}
	}
	vDone()
}
