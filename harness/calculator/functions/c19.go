package functions

import "github.com/pip-services3-gox/pip-services3-expressions-gox/variants"

// C19 at the level of the built-in functions: a call writes only to objects it
// allocated itself - not to its argument list, to an argument, to the function
// table or to a shared constant - and leaves every argument as it was.

func H_C19_functions() {
	c := NewDefaultFunctionCollection()
	f := c.Get(vChoice("fn", c.Length()))
	n := vChoice("argc", 5)
	ops := opsManager(vChoice("manager", 2))
	params := make([]*variants.Variant, n)
	before := make([]*variants.Variant, n)
	kind := vChoice("argtype", 9)
	if f.Name() == "Contains" && kind != 6 {
		return // non-string arguments are formatted by an opaque stub: no claim
	}
	for i := range params {
		params[i] = numArg(kind, "arg")
		before[i] = params[i].Clone()
	}
	list := append([]*variants.Variant{}, params...)
	vWriteSetBegin()
	call(f, params, ops)
	vWriteSetEnd("ws:function-writes-only-fresh-objects")
	vAssert(len(params) == n, "functions:argument-count-unchanged")
	for i := range list {
		vAssert(params[i] == list[i], "functions:argument-list-unchanged")
		vAssert(c19Same(list[i], before[i]), "functions:argument-unchanged")
	}
	vAssert(variants.Empty.Type() == variants.Null, "functions:shared-empty-constant-unchanged")
	vAssert(c.Length() > 30, "functions:table-unchanged")
	vDone()
}

func c19Same(a, b *variants.Variant) bool {
	if a != nil && b != nil && a.Type() == variants.Array && b.Type() == variants.Array {
		x, y := a.AsArray(), b.AsArray()
		if len(x) != len(y) {
			return false
		}
		for i := range x {
			if !sameV(x[i], y[i]) {
				return false
			}
		}
		return true
	}
	return sameV(a, b)
}
