package functions

import (
	"strings"

	"github.com/pip-services3-gox/pip-services3-expressions-gox/variants"
)

var c18Names = []string{"f", "F", "g", "G", "fg"}

type c18Entry struct {
	name string
	f    IFunction
}

func c18Find(model []c18Entry, name string) int {
	for i, e := range model {
		if strings.ToUpper(e.name) == strings.ToUpper(name) {
			return i
		}
	}
	return -1
}

func c18Calc(params []*variants.Variant, ops variants.IVariantOperations) (*variants.Variant, error) {
	return variants.EmptyVariant(), nil
}

func H_C18_functions() {
	K := vParam("K")
	c := NewFunctionCollection()
	var model []c18Entry
	for step := 0; step < K; step++ {
		name := c18Names[vChoice("name", len(c18Names))]
		switch vChoice("op", 6) {
		case 0:
			f := NewDelegatedFunction(name, c18Calc)
			c.Add(f)
			model = append(model, c18Entry{name, f})
		case 1:
			i := c18Find(model, name)
			got := c.FindByName(name)
			if i < 0 {
				vAssert(got == nil, "find:absent")
			} else {
				vAssert(got == model[i].f, "find:first-added-wins")
			}
			vAssert(c.FindIndexByName(name) == i, "findindex")
		case 2:
			if len(model) > 0 {
				i := vChoice("index", len(model))
				c.Remove(i)
				model = append(append([]c18Entry{}, model[:i]...), model[i+1:]...)
			}
		case 3:
			i := c18Find(model, name)
			c.RemoveByName(name)
			if i >= 0 {
				model = append(append([]c18Entry{}, model[:i]...), model[i+1:]...)
			}
		case 4:
			c.Clear()
			model = nil
		case 5:
			all := c.GetAll()
			if len(all) > 0 {
				all[0] = nil
			}
		}
		vAssert(c.Length() == len(model), "list:length")
		if c.Length() != len(model) {
			return
		}
		for i, e := range model {
			vAssert(c.Get(i) == e.f, "list:order")
		}
	}
	vDone()
}

// H_C18_defaults: every default function is found by its name in any letter case.
func H_C18_defaults() {
	c := NewDefaultFunctionCollection()
	i := vChoice("fn", c.Length())
	name := []rune(c.Get(i).Name())
	for k, r := range name {
		if r >= 'a' && r <= 'z' {
			name[k] = vIteRune(vBool("upper"), r-32, r)
		} else if r >= 'A' && r <= 'Z' {
			name[k] = vIteRune(vBool("lower"), r+32, r)
		}
	}
	got := c.FindByName(string(name))
	vAssert(got != nil, "defaults:found-in-any-case")
	if got != nil {
		// the first one added with that name wins
		vAssert(c.FindIndexByName(c.Get(i).Name()) <= i, "defaults:first-wins")
		vAssert(strings.ToUpper(got.Name()) == strings.ToUpper(c.Get(i).Name()), "defaults:same-name")
	}
	vDone()
}

// H_C18_casefold: as for variables: two function names that differ in one symbolic character.
func H_C18_casefold() {
	letter := func(tag string) rune {
		r := vRune(tag)
		vAssume(vOr(vAnd(r >= 0, r < 0xD800), vAnd(r > 0xDFFF, r <= 0x10FFFF)))
		return r
	}
	n1 := "f" + string(letter("n1")) + "x"
	n2 := "F" + string(letter("n2")) + "X"
	c := NewFunctionCollection()
	f1 := NewDelegatedFunction(n1, c18Calc)
	c.Add(f1)
	same := strings.ToUpper(n1) == strings.ToUpper(n2)
	if same {
		vAssert(c.FindByName(n2) == IFunction(f1), "casefold:found-in-the-other-case")
		vAssert(c.FindIndexByName(n2) == 0, "casefold:index")
		c.RemoveByName(n2)
		vAssert(c.Length() == 0, "casefold:removed-by-the-other-case")
	} else {
		vAssert(c.FindByName(n2) == nil && c.FindIndexByName(n2) == -1, "casefold:different-names-differ")
		c.RemoveByName(n2)
		vAssert(c.Length() == 1, "casefold:removes-only-its-own")
	}
	vDone()
}
