package calculator

import (
	"github.com/pip-services3-gox/pip-services3-expressions-gox/calculator/functions"
	"github.com/pip-services3-gox/pip-services3-expressions-gox/calculator/parsers"
	"github.com/pip-services3-gox/pip-services3-expressions-gox/calculator/variables"
	"github.com/pip-services3-gox/pip-services3-expressions-gox/variants"
)

// C01: the value of an expression follows precedence, associativity and operand order.

func guarded(f func()) (panicked bool) {
	defer func() {
		if r := recover(); r != nil {
			panicked = true
		}
	}()
	f()
	return false
}

// sameVariant: same type and payload (floats bit-identical or both NaN).
func sameVariant(a, b *variants.Variant) bool {
	if a == nil || b == nil {
		return a == b
	}
	if a.Type() != b.Type() {
		return false
	}
	switch a.Type() {
	case variants.Null:
		return true
	case variants.Integer:
		return a.AsInteger() == b.AsInteger()
	case variants.Long:
		return a.AsLong() == b.AsLong()
	case variants.Float:
		return vSameBits32(a.AsFloat(), b.AsFloat())
	case variants.Double:
		return vSameBits64(a.AsDouble(), b.AsDouble())
	case variants.String:
		return a.AsString() == b.AsString()
	case variants.Boolean:
		return a.AsBoolean() == b.AsBoolean()
	case variants.TimeSpan:
		return a.AsTimeSpan() == b.AsTimeSpan()
	case variants.DateTime:
		return a.AsDateTime().Equal(b.AsDateTime())
	case variants.Array:
		x, y := a.AsArray(), b.AsArray()
		if len(x) != len(y) {
			return false
		}
		res := true
		for i := range x {
			res = vAnd(res, sameVariant(x[i], y[i]))
		}
		return res
	}
	return a.AsObject() == b.AsObject()
}

// test functions: order- and count-sensitive. tf(x0..xn-1) = 1000*n + sum (i+1)*xi over integers.
func testFunction(name string) functions.IFunction {
	return functions.NewDelegatedFunction(name, func(params []*variants.Variant, ops variants.IVariantOperations) (*variants.Variant, error) {
		acc := 1000 * len(params)
		for i, p := range params {
			v, err := ops.Convert(p, variants.Integer)
			if err != nil {
				return nil, err
			}
			acc += (i + 1) * v.AsInteger()
		}
		return variants.VariantFromInteger(acc), nil
	})
}

type evalEnv struct {
	ops   variants.IVariantOperations
	vars  variables.IVariableCollection
	funcs functions.IFunctionCollection
}

// evalTree evaluates the syntax tree directly: each node applies its variant operation
// to its operands in written order. ok=false means "evaluation is an error".
func evalTree(n *parsers.VerifNode, env *evalEnv) (*variants.Variant, bool) {
	args := make([]*variants.Variant, len(n.Args))
	for i, a := range n.Args {
		v, ok := evalTree(a, env)
		if !ok {
			return nil, false
		}
		args[i] = v
	}
	var r *variants.Variant
	var err error
	ops := env.ops
	switch n.Kind {
	case parsers.Constant:
		return n.Tok.Value(), true
	case parsers.Variable:
		v := env.vars.FindByName(n.Tok.Value().AsString())
		if v == nil {
			return nil, false
		}
		return v.Value(), true
	case parsers.Function:
		f := env.funcs.FindByName(n.Tok.Value().AsString())
		if f == nil {
			return nil, false
		}
		r, err = f.Calculate(args, ops)
	case parsers.And:
		r, err = ops.And(args[0], args[1])
	case parsers.Or:
		r, err = ops.Or(args[0], args[1])
	case parsers.Xor:
		r, err = ops.Xor(args[0], args[1])
	case parsers.Not:
		r, err = ops.Not(args[0])
	case parsers.Plus:
		r, err = ops.Add(args[0], args[1])
	case parsers.Minus:
		r, err = ops.Sub(args[0], args[1])
	case parsers.Star:
		r, err = ops.Mul(args[0], args[1])
	case parsers.Slash:
		r, err = ops.Div(args[0], args[1])
	case parsers.Procent:
		r, err = ops.Mod(args[0], args[1])
	case parsers.Power:
		r, err = ops.Pow(args[0], args[1])
	case parsers.Unary:
		r, err = ops.Negative(args[0])
	case parsers.ShiftLeft:
		r, err = ops.Lsh(args[0], args[1])
	case parsers.ShiftRight:
		r, err = ops.Rsh(args[0], args[1])
	case parsers.Equal:
		r, err = ops.Equal(args[0], args[1])
	case parsers.NotEqual:
		r, err = ops.NotEqual(args[0], args[1])
	case parsers.More:
		r, err = ops.More(args[0], args[1])
	case parsers.Less:
		r, err = ops.Less(args[0], args[1])
	case parsers.EqualMore:
		r, err = ops.MoreEqual(args[0], args[1])
	case parsers.EqualLess:
		r, err = ops.LessEqual(args[0], args[1])
	case parsers.In:
		// a IN b: membership of a in the container b
		r, err = ops.In(args[1], args[0])
	case parsers.NotIn:
		r, err = ops.In(args[1], args[0])
		if err == nil {
			if r == nil || r.Type() != variants.Boolean {
				return nil, false // NOT IN over Null: no claim on the value (C03 judges the crash)
			}
			r = variants.VariantFromBoolean(!r.AsBoolean())
		}
	case parsers.Element:
		r, err = ops.GetElement(args[0], args[1])
	case parsers.IsNull:
		r = variants.VariantFromBoolean(args[0].IsNull())
	case parsers.IsNotNull:
		r = variants.VariantFromBoolean(!args[0].IsNull())
	default:
		// LIKE / NOT LIKE have no evaluation semantics: an error is expected
		return nil, false
	}
	if err != nil || r == nil {
		return nil, false
	}
	return r, true
}

// c01Setup registers variables v0..v(L-1) with symbolic integer values and the test functions.
// c01Setup: one variable and one test function per identifier position of the token list
// (other positions need none: the type of each token is decided on the path by then).
func c01Setup(toks []*parsers.ExpressionToken, kind int) *evalEnv {
	vars := variables.NewVariableCollection()
	funcs := functions.NewFunctionCollection()
	for i := range toks {
		if toks[i].Type() != parsers.Variable {
			continue
		}
		name := "v" + string(rune('0'+i))
		var val *variants.Variant
		switch kind {
		case 0:
			val = variants.VariantFromInteger(vInt("val"))
		case 1:
			val = variants.VariantFromDouble(vF64("val"))
		case 2:
			val = variants.VariantFromBoolean(vBool("val"))
		case 4:
			// boundary values of every supported type (all concrete)
			pool := []*variants.Variant{
				variants.VariantFromInteger(0), variants.VariantFromInteger(-1), variants.VariantFromInteger(7), variants.VariantFromInteger(9223372036854775807),
				variants.EmptyVariant(), variants.VariantFromBoolean(true), variants.VariantFromBoolean(false),
				variants.VariantFromString(""), variants.VariantFromString("ab"), variants.VariantFromString("7"), variants.VariantFromString("é"),
				variants.VariantFromDouble(0), variants.VariantFromDouble(2.5), variants.VariantFromLong(-3), variants.VariantFromFloat(1.5),
				variants.VariantFromArray([]*variants.Variant{variants.VariantFromInteger(1), variants.VariantFromString("x")}),
				variants.VariantFromArray([]*variants.Variant{}),
			}
			val = pool[vChoice("boundary", len(pool))]
		case 5:
			switch vChoice("valtype", 4) {
			case 0:
				val = variants.VariantFromInteger(vInt("val"))
			case 1:
				val = variants.EmptyVariant()
			case 2:
				val = variants.VariantFromBoolean(vBool("val"))
			case 3:
				val = variants.VariantFromArray([]*variants.Variant{variants.VariantFromInteger(vInt("el")), variants.VariantFromInteger(vInt("el"))})
			}
		default:
			switch vChoice("valtype", 5) {
			case 0:
				val = variants.VariantFromInteger(vInt("val"))
			case 1:
				val = variants.EmptyVariant()
			case 2:
				val = variants.VariantFromBoolean(vBool("val"))
			case 3:
				val = variants.VariantFromString([]string{"", "ab", "7"}[vChoice("str", 3)])
			case 4:
				val = variants.VariantFromArray([]*variants.Variant{variants.VariantFromInteger(vInt("el")), variants.VariantFromInteger(vInt("el"))})
			}
		}
		vars.Add(variables.NewVariable(name, val))
		funcs.Add(testFunction(name))
	}
	return &evalEnv{ops: variants.NewTypeUnsafeVariantOperations(), vars: vars, funcs: funcs}
}

// c01Compare: the calculator's result equals the direct evaluation of the tree (or both fail).
func c01Compare(calc *ExpressionCalculator, tree *parsers.VerifNode, env *evalEnv) {
	var want *variants.Variant
	var wantOK bool
	if guarded(func() { want, wantOK = evalTree(tree, env) }) {
		return // the operations themselves crash: C03's subject
	}
	var got *variants.Variant
	var err error
	if guarded(func() { got, err = calc.EvaluateUsingVariablesAndFunctions(env.vars, env.funcs) }) {
		return
	}
	if wantOK {
		vAssert(err == nil, "value:evaluation-succeeds")
		if err == nil {
			vAssert(sameVariant(got, want), "value:equals-syntax-tree-value")
		}
	} else if !hasNoClaim(tree) {
		vAssert(err != nil, "value:error-where-tree-evaluation-fails")
	}
}

// hasNoClaim: trees containing NOT IN (value over Null operands unspecified).
func hasNoClaim(n *parsers.VerifNode) bool {
	if n.Kind == parsers.NotIn {
		return true
	}
	for _, a := range n.Args {
		if hasNoClaim(a) {
			return true
		}
	}
	return false
}

// H_C01_tokens: every accepted sequence of L expression tokens with symbolic types,
// evaluated under symbolic variable values.
func H_C01_tokens() {
	L := vParam("L")
	l := 1 + vChoice("len", L)
	toks := parsers.VerifSymTokens(l)
	tree := parsers.VerifReference(toks)
	vAssume(tree != nil)
	calc := NewExpressionCalculator()
	var err error
	if guarded(func() { err = calc.parser.VerifParseInitialTokens(toks) }) {
		return
	}
	vAssume(err == nil) // acceptance itself is C02's subject
	env := c01Setup(toks, vParam("VALS"))
	c01Compare(calc, tree, env)
	vDone()
}

// H_C01_skeletons: fixed expression shapes with symbolic operator slots (every ordered
// operator pair / triple), symbolic integer variables.
// c01SkeletonTokens builds the tokens of skeleton SKEL (operator slots symbolic).
func c01SkeletonTokens(skel int) []*parsers.ExpressionToken {
	op := func(tag string) int {
		t := vInt(tag)
		vAssume(parsers.VerifBinaryOperator(t))
		return t
	}
	V, LB, RB, LS, RS, CM := parsers.Variable, parsers.LeftBrace, parsers.RightBrace, parsers.LeftSquareBrace, parsers.RightSquareBrace, parsers.Comma
	var types []int
	switch skel {
	case 0:
		types = []int{V, op("o1"), V, op("o2"), V}
	case 1:
		types = []int{V, op("o1"), V, op("o2"), V, op("o3"), V}
	case 2:
		o0 := []int{parsers.Not, parsers.Minus, parsers.Plus}[vChoice("o0", 3)]
		types = []int{o0, V, op("o1"), V}
	case 3:
		o0 := []int{parsers.Not, parsers.Minus, parsers.Plus}[vChoice("o0", 3)]
		types = []int{V, op("o1"), o0, V}
	case 4:
		types = []int{LB, V, op("o1"), V, RB, op("o2"), V}
	case 5:
		types = []int{V, op("o1"), LB, V, op("o2"), V, RB}
	case 6:
		types = []int{V, LB, V, CM, V, RB}
	case 7:
		types = []int{V, LB, V, CM, V, LB, V, RB, CM, V, RB}
	case 8:
		types = []int{V, LS, V, RS, op("o1"), V}
	case 9:
		types = []int{V, op("o1"), V, LB, V, op("o2"), V, CM, V, RB}
	case 10:
		o0 := []int{parsers.Not, parsers.Minus, parsers.Plus}[vChoice("o0", 3)]
		types = []int{o0, V, LS, V, RS, op("o1"), V}
	case 11:
		types = []int{V, LB, V, RB, LS, V, RS}
	case 12:
		types = []int{LB, V, op("o1"), V, RB, LS, V, RS}
	case 13:
		o0 := []int{parsers.Not, parsers.Minus, parsers.Plus}[vChoice("o0", 3)]
		types = []int{V, op("o1"), o0, V, LB, V, RB, LS, V, RS}
	}
	toks := make([]*parsers.ExpressionToken, len(types))
	for i, t := range types {
		toks[i] = parsers.VerifToken(t, i, nil)
	}
	return toks
}

func H_C01_skeletons() {
	toks := c01SkeletonTokens(vParam("SKEL"))
	tree := parsers.VerifReference(toks)
	calc := NewExpressionCalculator()
	var err error
	if guarded(func() { err = calc.parser.VerifParseInitialTokens(toks) }) {
		return
	}
	// every skeleton is a sentence (IS/NOT forms aside): the parser must agree
	vAssert((tree != nil) == (err == nil), "skeleton:accepted-iff-sentence")
	if tree == nil || err != nil {
		return
	}
	parsers.VerifCheckProgram(calc.parser, tree)
	env := c01Setup(toks, vParam("VALS"))
	c01Compare(calc, tree, env)
	vDone()
}

var c01Exprs = [][]string{
	{"a", "+", "b", "*", "c"},
	{"a", "-", "b", "-", "c"},
	{"a", "AND", "NOT", "b", "OR", "c"},
	{"a", "IS", "NOT", "NULL"},
	{"a", "IS", "NULL", "XOR", "b"},
	{"a", "NOT", "IN", "b"},
	{"a", "IN", "b"},
	{"max", "(", "a", ",", "b", ")"},
	{"a", "[", "b", "]"},
	{"-", "a", "^", "b"},
	{"a", "<<", "b", ">=", "c"},
	{"a", "<>", "b"},
	{"a", "/", "b", "%", "c"},
	{"TRUE", "=", "a"},
}

func isKeywordWord(s string) bool {
	switch s {
	case "AND", "OR", "XOR", "NOT", "IS", "IN", "NULL", "TRUE", "FALSE", "LIKE":
		return true
	}
	return false
}

func isWordLike(s string) bool {
	r := s[0]
	return (r >= 'a' && r <= 'z') || (r >= 'A' && r <= 'Z')
}

// H_C01_strings: redundant parentheses, whitespace, comments and keyword letter-case never change the result.
func H_C01_strings() {
	toks := c01Exprs[vChoice("expr", len(c01Exprs))]
	canonical := ""
	for i, t := range toks {
		if i > 0 {
			canonical += " "
		}
		canonical += t
	}
	gap := vChoice("gap", len(toks)+1) // the gap that receives the filler (0 = before the first token)
	wrap := vChoice("wrap", len(toks)+1) - 1
	var text []rune
	for i, t := range toks {
		// filler before token i
		if i == gap {
			switch vChoice("filler", 4) {
			case 0:
				w := vRune("ws")
				vAssume(w <= ' ')
				text = append(text, w)
			case 1:
				w1, w2 := vRune("ws"), vRune("ws")
				vAssume(vAnd(w1 <= ' ', w2 <= ' '))
				text = append(text, w1, w2)
			case 2:
				// a comment with any one-character body (a star or a slash included)
				text = append(text, ' ', '/', '*', vRune("cm"), '*', '/', ' ')
			case 3:
				// no filler at all, where the neighbours cannot fuse
				if i > 0 && isWordLike(toks[i-1]) && isWordLike(t) {
					text = append(text, ' ')
				}
			}
		} else if i > 0 {
			text = append(text, ' ')
		}
		tr := []rune(t)
		if isKeywordWord(t) {
			for k, r := range tr {
				tr[k] = vIteRune(vBool("lower"), r+32, r)
			}
		}
		if i == wrap && (t == "a" || t == "b" || t == "c") && !(i+1 < len(toks) && toks[i+1] == "(") {
			text = append(text, '(')
			text = append(text, tr...)
			text = append(text, ')')
		} else {
			text = append(text, tr...)
		}
	}
	if gap == len(toks) {
		w := vRune("ws")
		vAssume(w <= ' ')
		text = append(text, w)
	}
	ref := NewExpressionCalculator()
	errRef := ref.SetExpression(canonical)
	vAssert(errRef == nil, "strings:canonical-accepted")
	if errRef != nil {
		return
	}
	calc := NewExpressionCalculator()
	var err error
	if guarded(func() { err = calc.SetExpression(string(text)) }) {
		return
	}
	vAssert(err == nil, "strings:variant-spelling-accepted")
	if err != nil {
		return
	}
	p1, p2 := ref.ResultTokens(), calc.ResultTokens()
	vAssert(len(p1) == len(p2), "strings:same-program-length")
	if len(p1) != len(p2) {
		return
	}
	for i := range p1 {
		vAssert(p1[i].Type() == p2[i].Type(), "strings:same-program")
		if p1[i].Type() == parsers.Variable || p1[i].Type() == parsers.Function {
			vAssert(p1[i].Value().AsString() == p2[i].Value().AsString(), "strings:same-names")
		}
	}
	// same value under the same variable assignment
	vars := variables.NewVariableCollection()
	arr := variants.VariantFromArray([]*variants.Variant{variants.VariantFromInteger(vInt("el")), variants.VariantFromInteger(vInt("el"))})
	vars.Add(variables.NewVariable("a", variants.VariantFromInteger(vInt("a"))))
	if len(toks) == 3 && (toks[1] == "IN") || len(toks) == 4 && toks[2] == "IN" {
		vars.Add(variables.NewVariable("b", arr))
	} else if toks[0] == "a" && len(toks) == 4 && toks[1] == "[" {
		vars.Add(variables.NewVariable("b", variants.VariantFromInteger(vInt("b"))))
		vars.Remove(0)
		vars.Add(variables.NewVariable("a", arr))
	} else {
		vars.Add(variables.NewVariable("b", variants.VariantFromInteger(vInt("b"))))
	}
	vars.Add(variables.NewVariable("c", variants.VariantFromInteger(vInt("c"))))
	var v1, v2 *variants.Variant
	var e1, e2 error
	if guarded(func() { v1, e1 = ref.EvaluateUsingVariables(vars); v2, e2 = calc.EvaluateUsingVariables(vars) }) {
		return
	}
	vAssert((e1 == nil) == (e2 == nil), "strings:same-outcome")
	if e1 == nil && e2 == nil {
		vAssert(sameVariant(v1, v2), "strings:same-value")
	}
	vDone()
}
