package calculator

import (
	"github.com/pip-services3-gox/pip-services3-expressions-gox/calculator/parsers"
	"github.com/pip-services3-gox/pip-services3-expressions-gox/csv"
	"github.com/pip-services3-gox/pip-services3-expressions-gox/tokenizers/generic"
	"github.com/pip-services3-gox/pip-services3-expressions-gox/variants"
)

// C19: evaluation is pure and repeatable.

type progSnap struct {
	types []int
	vals  []*variants.Variant
	copy  []*variants.Variant
}

func snapProgram(calc *ExpressionCalculator) progSnap {
	var s progSnap
	for _, t := range calc.ResultTokens() {
		s.types = append(s.types, t.Type())
		s.vals = append(s.vals, t.Value())
		s.copy = append(s.copy, t.Value().Clone())
	}
	return s
}

func checkProgram(calc *ExpressionCalculator, s progSnap, tag string) {
	rt := calc.ResultTokens()
	vAssert(len(rt) == len(s.types), tag+":program-length-unchanged")
	if len(rt) != len(s.types) {
		return
	}
	for i, t := range rt {
		vAssert(t.Type() == s.types[i], tag+":program-unchanged")
		vAssert(t.Value() == s.vals[i], tag+":constants-unchanged")
		if t.Type() == parsers.Constant {
			vAssert(sameVariant(t.Value(), s.copy[i]), tag+":constant-values-unchanged")
		}
	}
}

type varSnap struct {
	vals []*variants.Variant
	copy []*variants.Variant
}

func snapVars(env *evalEnv) varSnap {
	var s varSnap
	for i := 0; i < env.vars.Length(); i++ {
		v := env.vars.Get(i).Value()
		s.vals = append(s.vals, v)
		s.copy = append(s.copy, v.Clone())
	}
	return s
}

func checkVars(env *evalEnv, s varSnap, tag string) {
	vAssert(env.vars.Length() == len(s.vals), tag+":variable-count-unchanged")
	if env.vars.Length() != len(s.vals) {
		return
	}
	for i := range s.vals {
		v := env.vars.Get(i).Value()
		vAssert(v == s.vals[i], tag+":variables-unchanged")
		if v.Type() != variants.Array {
			vAssert(sameVariant(v, s.copy[i]), tag+":variable-values-unchanged")
		} else {
			vAssert(v.Equals(s.copy[i]), tag+":variable-values-unchanged")
		}
	}
}

// H_C19_repeat: evaluate under V1, V2, V1 on one compiled instance.
func H_C19_repeat() {
	var toks []*parsers.ExpressionToken
	if sk := vParam("SKEL"); sk >= 0 {
		toks = c01SkeletonTokens(sk) // fixed shapes (calls with several arguments, nested calls, indexing)
	} else {
		toks = parsers.VerifSymTokens(1 + vChoice("len", vParam("L")))
	}
	calc := NewExpressionCalculator()
	var err error
	if guarded(func() { err = calc.parser.VerifParseInitialTokens(toks) }) {
		return
	}
	vAssume(err == nil)
	kind := vParam("VALS")
	env1 := c01Setup(toks, kind)
	kind2 := kind
	if vParam("SKEL") >= 0 {
		kind2 = 0 // fixed shapes: the interleaved evaluation runs over integers (keeps the value-type forks linear)
	}
	env2 := c01Setup(toks, kind2)
	env1b := &evalEnv{ops: env1.ops, funcs: env1.funcs, vars: env1.vars}
	prog := snapProgram(calc)
	vs1 := snapVars(env1)
	var r1, r2, r3 *variants.Variant
	var e1, e2, e3 error
	crashed := false
	// the frame condition: an evaluation writes only to objects it allocated itself
	vWriteSetBegin()
	vConcurrently(func(i int) {
		env := env1
		if i == 1 {
			env = env1b
		}
		if guarded(func() { r, e := calc.EvaluateUsingVariablesAndFunctions(env.vars, env.funcs); r1, e1 = r, e }) {
			crashed = true
		}
	})
	vWriteSetEnd("ws:evaluate-writes-only-fresh-objects")
	if crashed {
		return // C03's subject
	}
	if guarded(func() { r2, e2 = calc.EvaluateUsingVariablesAndFunctions(env2.vars, env2.funcs) }) {
		return
	}
	if guarded(func() { r3, e3 = calc.EvaluateUsingVariablesAndFunctions(env1.vars, env1.funcs) }) {
		return
	}
	_, _ = r2, e2
	vAssert((e1 == nil) == (e3 == nil), "repeat:same-outcome")
	if e1 == nil && e3 == nil {
		vAssert(sameVariant(r1, r3), "repeat:equal-result-for-equal-inputs")
	}
	checkProgram(calc, prog, "repeat")
	checkVars(env1, vs1, "repeat")
	vDone()
}

// H_C19_globals: tokenising, parsing and evaluating on an instance of one's own writes no
// package-level state (nor anything reachable from it).
func H_C19_globals() {
	exprs := []string{"a + 1 <= b", "max(a, 2) IS NOT NULL AND NOT b", "'x' + \"q\" <> a[0]", "1 <<", "a <= b <> c << 2 >= d", "'ab'[0] + 'ab'[1]", "b[0] IS NULL OR 'x'[0] = 'x'"}
	which := vChoice("what", len(exprs)+2)
	x := vInt("a")
	vWriteSetBegin()
	vConcurrently(func(i int) {
		guarded(func() {
			switch {
			case which < len(exprs):
				calc := NewExpressionCalculator()
				if calc.SetExpression(exprs[which]) == nil {
					calc.DefaultVariables().FindByName("a").SetValue(variants.VariantFromInteger(x))
					calc.Evaluate()
				}
			case which == len(exprs):
				t := csv.NewCsvTokenizer()
				t.TokenizeBuffer("a,\"b\"\"c\"\r\nd")
			default:
				t := generic.NewGenericTokenizer()
				t.TokenizeBuffer("a <= b <> c >= 1.5 'q' #x")
			}
		})
	})
	vWriteSetEnd("ws:own-instance-writes-no-shared-state")
	vDone()
}
