package calculator

import (
	"github.com/pip-services3-gox/pip-services3-expressions-gox/calculator/variables"
	"github.com/pip-services3-gox/pip-services3-expressions-gox/variants"
)

var c05Exprs = []string{
	"a + b * 2", "a <= b", "a <> b", "max(a, b) - c", "a IS NULL", "a +", "(a", "1 / 0", "unknownFn(1)",
	"a << 2 >= b", "'text' + 'x'", "a[0]", "",
}

// H_C05_calculator: expression E1 (set and evaluated) then E2 on one calculator vs. E2 on a fresh one,
// under the same variable values.
func H_C05_calculator() {
	e1 := c05Exprs[vChoice("first", len(c05Exprs))]
	e2 := c05Exprs[vChoice("second", len(c05Exprs))]
	mk := func() *variables.VariableCollection {
		vars := variables.NewVariableCollection()
		return vars
	}
	x, y, z := vInt("a"), vInt("b"), vInt("c")
	fill := func(vars *variables.VariableCollection) {
		vars.Add(variables.NewVariable("a", variants.VariantFromInteger(x)))
		vars.Add(variables.NewVariable("b", variants.VariantFromInteger(y)))
		vars.Add(variables.NewVariable("c", variants.VariantFromInteger(z)))
	}
	v1, v2 := mk(), mk()
	fill(v1)
	fill(v2)
	calc := NewExpressionCalculator()
	guarded(func() {
		if calc.SetExpression(e1) == nil {
			calc.EvaluateUsingVariables(v1)
		}
	})
	fresh := NewExpressionCalculator()
	var err1, err2, ev1, ev2 error
	var r1, r2 *variants.Variant
	p1 := guarded(func() {
		err1 = calc.SetExpression(e2)
		if err1 == nil {
			r1, ev1 = calc.EvaluateUsingVariables(v1)
		}
	})
	p2 := guarded(func() {
		err2 = fresh.SetExpression(e2)
		if err2 == nil {
			r2, ev2 = fresh.EvaluateUsingVariables(v2)
		}
	})
	vAssert(p1 == p2, "calc-reuse:outcome")
	if p1 || p2 {
		return
	}
	vAssert((err1 == nil) == (err2 == nil), "calc-reuse:accept")
	if err1 == nil && err2 == nil {
		a, b := calc.ResultTokens(), fresh.ResultTokens()
		vAssert(len(a) == len(b), "calc-reuse:program-length")
		if len(a) == len(b) {
			for i := range a {
				vAssert(a[i].Type() == b[i].Type(), "calc-reuse:program")
			}
		}
		vAssert((ev1 == nil) == (ev2 == nil), "calc-reuse:evaluation-outcome")
		if ev1 == nil && ev2 == nil {
			vAssert(sameVariant(r1, r2), "calc-reuse:value")
		}
	}
	vDone()
}
