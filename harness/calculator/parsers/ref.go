package parsers

import (
	cerrors "github.com/pip-services3-gox/pip-services3-commons-gox/errors"
	"github.com/pip-services3-gox/pip-services3-expressions-gox/calculator/errors"
	"github.com/pip-services3-gox/pip-services3-expressions-gox/variants"
)

// ---------------------------------------------------------------------
// Seam: start the real parser after its lexical pass on given expression tokens.

// VerifParseInitialTokens runs the real syntax analysis (and the leftover-token
// check of performParsing) over the given expression-level tokens.
func (c *ExpressionParser) VerifParseInitialTokens(tokens []*ExpressionToken) error {
	c.Clear()
	c.initialTokens = tokens
	err := c.performSyntaxAnalysis()
	if err != nil {
		return err
	}
	if c.hasMoreTokens() {
		token := c.getCurrentToken()
		return errors.NewSyntaxError("", errors.ErrErrorNear, "Syntax error near token", token.Line(), token.Column())
	}
	return nil
}

// VerifErrorHasCode: the error is a syntax/expression error that carries a code.
func VerifErrorHasCode(err error) bool {
	ae, ok := err.(*cerrors.ApplicationError)
	return ok && ae != nil && ae.Code != ""
}

// ---------------------------------------------------------------------
// Reference: precedence-climbing parser over the same tokens, driven by an
// explicit binding-power table transcribed from the statement of C01/C02.

type VerifNode struct {
	Kind  int // result token type
	Tok   *ExpressionToken
	Args  []*VerifNode
	Count int // function calls: number of written arguments
}

type verifRef struct {
	toks []*ExpressionToken
	pos  int
	ok   bool
}

func (r *verifRef) peek(k int) int {
	if r.pos+k < len(r.toks) {
		return r.toks[r.pos+k].Type()
	}
	return -1
}

// binding powers: AND/OR/XOR < prefix NOT < comparisons < additive and postfix tests
// < multiplicative < power/IN/shifts < unary sign, call, index
const (
	bpLogical = 1
	bpNot     = 2
	bpCompare = 3
	bpAdd     = 4
	bpMul     = 5
	bpPow     = 6
)

func binaryPower(t int) int {
	switch t {
	case And, Or, Xor:
		return bpLogical
	case Equal, NotEqual, More, Less, EqualMore, EqualLess:
		return bpCompare
	case Plus, Minus, Like:
		return bpAdd
	case Star, Slash, Procent:
		return bpMul
	case Power, In, ShiftLeft, ShiftRight:
		return bpPow
	}
	return 0
}

// parse parses an expression whose operators all bind at least as tightly as minBP.
func (r *verifRef) parse(minBP int) *VerifNode {
	var left *VerifNode
	// level of the expression built so far: an operator can only take it as its left
	// operand when it does not bind tighter than that level
	level := bpPow + 1
	if minBP <= bpNot && r.peek(0) == Not {
		t := r.toks[r.pos]
		r.pos++
		operand := r.parse(bpCompare)
		if !r.ok {
			return nil
		}
		left = &VerifNode{Kind: Not, Tok: t, Args: []*VerifNode{operand}}
		level = bpNot // a prefix-NOT expression can only be the operand of a logical operator
	} else {
		left = r.primary()
		if !r.ok {
			return nil
		}
	}
	for r.ok {
		t0 := r.peek(0)
		// postfix tests live on the additive level
		if minBP <= bpAdd && level >= bpAdd {
			if t0 == Is && r.peek(1) == Null {
				tok := r.toks[r.pos]
				r.pos += 2
				left = &VerifNode{Kind: IsNull, Tok: tok, Args: []*VerifNode{left}}
				level = bpAdd
				continue
			}
			if t0 == Is && r.peek(1) == Not && r.peek(2) == Null {
				tok := r.toks[r.pos]
				r.pos += 3
				left = &VerifNode{Kind: IsNotNull, Tok: tok, Args: []*VerifNode{left}}
				level = bpAdd
				continue
			}
			if t0 == Not && (r.peek(1) == In || r.peek(1) == Like) {
				kind := NotIn
				if r.peek(1) == Like {
					kind = NotLike
				}
				tok := r.toks[r.pos]
				r.pos += 2
				right := r.parse(bpMul)
				if !r.ok {
					return nil
				}
				left = &VerifNode{Kind: kind, Tok: tok, Args: []*VerifNode{left, right}}
				level = bpAdd
				continue
			}
		}
		bp := binaryPower(t0)
		if t0 < 0 || bp == 0 || bp < minBP || bp > level {
			break
		}
		tok := r.toks[r.pos]
		r.pos++
		// left-associative: the right operand binds strictly tighter; the operand of a
		// logical operator may start with a prefix NOT
		next := bp + 1
		if bp == bpLogical {
			next = bpNot
		}
		right := r.parse(next)
		if !r.ok {
			return nil
		}
		left = &VerifNode{Kind: tok.Type(), Tok: tok, Args: []*VerifNode{left, right}}
		level = bp
	}
	return left
}

func (r *verifRef) primary() *VerifNode {
	var unary *ExpressionToken
	switch r.peek(0) {
	case Plus:
		r.pos++
	case Minus:
		unary = r.toks[r.pos]
		r.pos++
	}
	var node *VerifNode
	switch r.peek(0) {
	case Constant:
		node = &VerifNode{Kind: Constant, Tok: r.toks[r.pos]}
		r.pos++
	case Variable:
		if r.peek(1) == LeftBrace {
			fn := r.toks[r.pos]
			r.pos += 2
			node = &VerifNode{Kind: Function, Tok: fn}
			if r.peek(0) == RightBrace {
				r.pos++
			} else {
				for {
					arg := r.parse(bpLogical)
					if !r.ok {
						return nil
					}
					node.Args = append(node.Args, arg)
					node.Count++
					if r.peek(0) == Comma {
						r.pos++
						continue
					}
					break
				}
				if r.peek(0) != RightBrace {
					r.ok = false
					return nil
				}
				r.pos++
			}
		} else {
			node = &VerifNode{Kind: Variable, Tok: r.toks[r.pos]}
			r.pos++
		}
	case LeftBrace:
		r.pos++
		node = r.parse(bpLogical)
		if !r.ok {
			return nil
		}
		if r.peek(0) != RightBrace {
			r.ok = false
			return nil
		}
		r.pos++
	default:
		r.ok = false
		return nil
	}
	if unary != nil {
		node = &VerifNode{Kind: Unary, Tok: unary, Args: []*VerifNode{node}}
	}
	if r.peek(0) == LeftSquareBrace {
		r.pos++
		idx := r.parse(bpLogical)
		if !r.ok {
			return nil
		}
		if r.peek(0) != RightSquareBrace {
			r.ok = false
			return nil
		}
		r.pos++
		node = &VerifNode{Kind: Element, Args: []*VerifNode{node, idx}}
	}
	return node
}

// VerifReference parses the tokens with the reference grammar: the syntax tree, or nil
// when the sequence is not a sentence.
func VerifReference(tokens []*ExpressionToken) *VerifNode {
	r := &verifRef{toks: tokens, ok: true}
	if len(tokens) == 0 {
		return nil
	}
	n := r.parse(bpLogical)
	if !r.ok || r.pos != len(tokens) {
		return nil
	}
	return n
}

// VerifPostOrder lists (type, token) of the tree in post-order, the way a compiled program is laid out.
type VerifEmit struct {
	Kind  int
	Tok   *ExpressionToken
	Count int
}

func VerifPostOrder(n *VerifNode, out []VerifEmit) []VerifEmit {
	for _, a := range n.Args {
		out = VerifPostOrder(a, out)
	}
	if n.Kind == Function {
		out = append(out, VerifEmit{Kind: Constant, Count: n.Count})
	}
	return append(out, VerifEmit{Kind: n.Kind, Tok: n.Tok, Count: -1})
}

// VerifSymTokens builds L expression tokens with symbolic types (those the lexical pass can
// produce); Variable tokens are named v0..v(L-1), Constant tokens carry symbolic integers.
func VerifSymTokens(L int) []*ExpressionToken {
	toks := make([]*ExpressionToken, L)
	for i := range toks {
		typ := vInt("type")
		vAssume(vAnd(typ >= LeftBrace, typ <= Constant))
		// never produced by the lexical pass
		vAssume(vAnd(vAnd(typ != NotIn, typ != Element), vAnd(typ != NotLike, typ != IsNull)))
		vAssume(vAnd(vAnd(typ != IsNotNull, typ != Unary), typ != Function))
		var val *variants.Variant
		if typ == Variable {
			val = variants.VariantFromString("v" + string(rune('0'+i)))
		} else if typ == Constant {
			val = variants.VariantFromInteger(vInt("const"))
		} else {
			val = variants.Empty
		}
		toks[i] = NewExpressionToken(typ, val, 1, i+1)
	}
	return toks
}

// VerifBinaryOperator constrains t to the binary operator token types.
func VerifBinaryOperator(t int) bool {
	ok := vAnd(t >= Plus, t <= Xor) // Plus..Xor: arithmetic, comparison, shift, logical
	ok = vOr(ok, vOr(t == In, t == Like))
	return ok
}

// VerifToken builds one expression token of the given type at position i.
func VerifToken(typ int, i int, val *variants.Variant) *ExpressionToken {
	if val == nil {
		if typ == Variable {
			val = variants.VariantFromString("v" + string(rune('0'+i)))
		} else {
			val = variants.Empty
		}
	}
	return NewExpressionToken(typ, val, 1, i+1)
}
