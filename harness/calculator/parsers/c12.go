package parsers

import (
	cerrors "github.com/pip-services3-gox/pip-services3-commons-gox/errors"
)

// C12 (consequence): positions quoted in syntax-error messages point at the
// offending token, also when skipped whitespace / line breaks precede it.

// c12ForwardScan: line/column of the character at index p as a forward scan
// counts them (LF always ends a line, CR unless adjacent to LF; CR/LF do not
// advance the column). Ordinary branches: positions are concrete on each path.
func c12ForwardScan(c []rune, p int) (int, int) {
	line, col := 1, 0
	for i := 0; i <= p && i < len(c); i++ {
		ch := c[i]
		brk := false
		if ch == '\n' {
			brk = true
		} else if ch == '\r' {
			brk = true
			if i > 0 && c[i-1] == '\n' {
				brk = false
			}
			if i+1 < len(c) && c[i+1] == '\n' {
				brk = false
			}
		}
		if brk {
			line++
			col = 0
		}
		if ch != '\n' && ch != '\r' {
			col++
		}
	}
	return line, col
}

func c12WordLike(b byte) bool {
	return b >= '0' && b <= '9' || b >= 'a' && b <= 'z' || b >= 'A' && b <= 'Z'
}

type c12Shape struct {
	prefix   string // accepted so far
	offender string // the token the message must point at
	tail     string
	code     string
}

var c12Shapes = []c12Shape{
	{"1", "$", "", "UNKNOWN_SYMBOL"},
	{"1", "2", "", "ERROR_NEAR"},
	{"1 +", ")", "", "ERROR_AT"},
	{"(1", "2", ")", "MISSED_CLOSE_PARENTHESIS"},
	{"a[1", "2", "]", "MISSED_CLOSE_SQUARE_BRACKET"},
	{"f(1", "2", ")", "MISSED_CLOSE_PARENTHESIS"},
	{"1 + 2 *", "*", " 3", "ERROR_AT"},
	{"x", "IS", " 1", "ERROR_NEAR"},
	{"x", "NOT", " 1", "ERROR_NEAR"},
	{"", ")", "", "ERROR_AT"},
}

// H_C12_errors: N symbolic layout characters (any character the tokenizer
// treats as whitespace, line breaks included) between an accepted prefix and
// the offending token.
func H_C12_errors() {
	N := vParam("N")
	sh := c12Shapes[vChoice("shape", len(c12Shapes))]
	n := vChoice("n", N+1)
	text := []rune(sh.prefix)
	for i := 0; i < n; i++ {
		w := vRune("ws")
		vAssume(vAnd(w >= 0, w <= ' '))
		text = append(text, w)
	}
	if n == 0 && sh.prefix != "" {
		if c12WordLike(sh.prefix[len(sh.prefix)-1]) && c12WordLike(sh.offender[0]) {
			vDone()
			return // the two lexemes would fuse
		}
	}
	at := len(text)
	text = append(text, []rune(sh.offender)...)
	text = append(text, []rune(sh.tail)...)
	p := NewExpressionParser()
	err, panicked := guardedParse(func() error { return p.ParseString(string(text)) })
	vAssert(!panicked && err != nil, "errorpos:rejected")
	if panicked || err == nil {
		vDone()
		return
	}
	ae, ok := err.(*cerrors.ApplicationError)
	vAssert(ok && ae != nil, "errorpos:application-error")
	if !ok || ae == nil {
		vDone()
		return
	}
	vAssert(ae.Code != "", "errorpos:carries-a-code")
	line, col := c12ForwardScan(text, at)
	// independent of the wording: the last two numbers of the message are the line and the column
	gotLine, gotCol, quoted := c12LastTwoInts(ae.Message)
	vNote(quoted, "errorpos:message-quotes-a-position") // no position quoted: nothing to point anywhere (recorded only)
	if quoted {
		vAssert(gotLine == line && gotCol == col, "errorpos:points-at-offending-token")
	}
	vDone()
}

// c12LastTwoInts: the last two decimal numbers that occur in s.
func c12LastTwoInts(s string) (a, b int, ok bool) {
	var nums []int
	cur, in := 0, false
	for i := 0; i < len(s); i++ {
		ch := s[i]
		if ch >= '0' && ch <= '9' {
			cur = cur*10 + int(ch-'0')
			in = true
		} else if in {
			nums = append(nums, cur)
			cur, in = 0, false
		}
	}
	if in {
		nums = append(nums, cur)
	}
	if len(nums) < 2 {
		return 0, 0, false
	}
	return nums[len(nums)-2], nums[len(nums)-1], true
}
