package parsers

var c05Pool = []string{
	"a + b", "a <= b", "a <> b", "a << b", "f(a, b) + c", "a IS NOT NULL", "NOT a AND b",
	"a +", "(a", "a b", "a[1", "'unterminated", "/* open comment", "1 )", "",
	"a NOT IN b", "x[1] * -y", "a >= b OR c >> 2 != d",
}

func c05Observe(p *ExpressionParser, err error, panicked bool) []string {
	if panicked {
		return []string{"panic"}
	}
	obs := []string{}
	if err != nil {
		obs = append(obs, "error")
	} else {
		obs = append(obs, "ok")
	}
	for _, t := range p.ResultTokens() {
		obs = append(obs, string(rune('A'+t.Type())))
		if t.Type() == Variable || t.Type() == Function {
			obs = append(obs, t.Value().AsString())
		}
	}
	obs = append(obs, "|")
	obs = append(obs, p.VariableNames()...)
	obs = append(obs, "|")
	for _, t := range p.InitialTokens() {
		obs = append(obs, string(rune('A'+t.Type())))
	}
	return obs
}

func c05Same(a, b []string, tag string) {
	vAssert(len(a) == len(b), tag+":shape")
	if len(a) != len(b) {
		return
	}
	for i := range a {
		vAssert(a[i] == b[i], tag+":content")
	}
}

// H_C05_parser: expression E1 then E2 on one parser vs. E2 on a fresh parser
// (every ordered pair from a pool with accepted, rejected, unterminated and empty inputs).
func H_C05_parser() {
	e1 := c05Pool[vChoice("first", len(c05Pool))]
	e2 := c05Pool[vChoice("second", len(c05Pool))]
	p := NewExpressionParser()
	guardedParse(func() error { return p.ParseString(e1) })
	err, panicked := guardedParse(func() error { return p.ParseString(e2) })
	f := NewExpressionParser()
	ferr, fpanicked := guardedParse(func() error { return f.ParseString(e2) })
	c05Same(c05Observe(p, err, panicked), c05Observe(f, ferr, fpanicked), "parser-reuse")
	vAssert(p.Expression() == f.Expression(), "parser-reuse:expression")
	vDone()
}

// H_C05_tokens: symbolic-type token programs P1 then P2 on one parser vs. P2 on a fresh one.
func H_C05_tokens() {
	t1 := VerifSymTokens(1 + vChoice("len1", vParam("L1")))
	t2 := VerifSymTokens(1 + vChoice("len2", vParam("L2")))
	p := NewExpressionParser()
	guardedParse(func() error { return p.VerifParseInitialTokens(t1) })
	err, panicked := guardedParse(func() error { return p.VerifParseInitialTokens(t2) })
	f := NewExpressionParser()
	ferr, fpanicked := guardedParse(func() error { return f.VerifParseInitialTokens(t2) })
	vAssert(panicked == fpanicked, "tokens-reuse:outcome")
	if panicked || fpanicked {
		return
	}
	vAssert((err == nil) == (ferr == nil), "tokens-reuse:accept")
	a, b := p.ResultTokens(), f.ResultTokens()
	vAssert(len(a) == len(b), "tokens-reuse:program-length")
	if len(a) == len(b) {
		for i := range a {
			vAssert(a[i].Type() == b[i].Type(), "tokens-reuse:program")
		}
	}
	c05Same(p.VariableNames(), f.VariableNames(), "tokens-reuse:variables")
	vDone()
}
