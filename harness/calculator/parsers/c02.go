package parsers

import "github.com/pip-services3-gox/pip-services3-expressions-gox/tokenizers"

// C02: the parser accepts exactly the expression grammar.

func guardedParse(f func() error) (err error, panicked bool) {
	defer func() {
		if r := recover(); r != nil {
			panicked = true
		}
	}()
	return f(), false
}

// verifCheckProgram: accepted sentences compile to the post-order of their syntax tree.
func VerifCheckProgram(p *ExpressionParser, tree *VerifNode) {
	want := VerifPostOrder(tree, nil)
	got := p.ResultTokens()
	vAssert(len(got) == len(want), "parser:program-length")
	if len(got) != len(want) {
		return
	}
	for i, w := range want {
		vAssert(got[i].Type() == w.Kind, "parser:program-is-postorder")
		if got[i].Type() != w.Kind {
			return
		}
		switch {
		case w.Count >= 0:
			vAssert(got[i].Value().AsInteger() == w.Count, "parser:call-argument-count")
		case w.Kind == Constant || w.Kind == Variable || w.Kind == Function:
			vAssert(got[i].Value() == w.Tok.Value(), "parser:operand-payload")
		}
	}
}

// H_C02_tokens: every sequence of L expression tokens with symbolic types.
func H_C02_tokens() {
	L := vParam("L")
	l := 1 + vChoice("len", L)
	toks := VerifSymTokens(l)
	tree := VerifReference(toks)
	p := NewExpressionParser()
	err, panicked := guardedParse(func() error { return p.VerifParseInitialTokens(toks) })
	if panicked {
		// a crash is C03's subject; here it only counts as "not accepted"
		vAssert(tree == nil, "parser:sentence-accepted")
		vDone()
		return
	}
	if tree != nil {
		vAssert(err == nil, "parser:sentence-accepted")
		if err == nil {
			VerifCheckProgram(p, tree)
		}
	} else {
		vAssert(err != nil, "parser:non-sentence-rejected")
		if err != nil {
			vAssert(VerifErrorHasCode(err), "parser:error-carries-code")
		}
	}
	vDone()
}

type vocabEntry struct {
	typ  int    // tokenizer-level token type
	text string // token text
	term int    // expression token type; -1 junk, -2 skipped
}

var c02Vocab = []vocabEntry{
	{tokenizers.Symbol, "(", LeftBrace}, {tokenizers.Symbol, ")", RightBrace}, {tokenizers.Symbol, "[", LeftSquareBrace}, {tokenizers.Symbol, "]", RightSquareBrace},
	{tokenizers.Symbol, "+", Plus}, {tokenizers.Symbol, "-", Minus}, {tokenizers.Symbol, "*", Star}, {tokenizers.Symbol, "^", Power},
	{tokenizers.Symbol, "=", Equal}, {tokenizers.Symbol, "<>", NotEqual}, {tokenizers.Symbol, "!=", NotEqual}, {tokenizers.Symbol, ">=", EqualMore},
	{tokenizers.Symbol, "<<", ShiftLeft}, {tokenizers.Symbol, ",", Comma},
	{tokenizers.Keyword, "AND", And}, {tokenizers.Keyword, "not", Not}, {tokenizers.Keyword, "Is", Is}, {tokenizers.Keyword, "IN", In},
	{tokenizers.Keyword, "null", Null}, {tokenizers.Keyword, "LIKE", Like}, {tokenizers.Keyword, "true", Constant},
	{tokenizers.Word, "a", Variable}, {tokenizers.Integer, "1", Constant}, {tokenizers.Float, "2.5", Constant}, {tokenizers.Quoted, "s", Constant},
	{tokenizers.Symbol, "!", -1}, {tokenizers.Symbol, "&", -1}, {tokenizers.Unknown, "?", -1}, {tokenizers.Special, "x", -1},
	{tokenizers.Whitespace, " ", -2},
}

// H_C02_vocab: the public API (ParseTokens) over a vocabulary of tokenizer-level tokens.
func H_C02_vocab() {
	L := vParam("L")
	l := 1 + vChoice("len", L)
	var orig []*tokenizers.Token
	var expr []*ExpressionToken
	junk := false
	for i := 0; i < l; i++ {
		e := c02Vocab[vChoice("word", len(c02Vocab))]
		orig = append(orig, tokenizers.NewToken(e.typ, e.text, 1, i+1))
		if e.term == -1 {
			junk = true
		}
		if e.term >= 0 {
			expr = append(expr, NewExpressionToken(e.term, nil, 1, i+1))
		}
	}
	p := NewExpressionParser()
	err, panicked := guardedParse(func() error { return p.ParseTokens(orig) })
	if panicked {
		vDone()
		return // C03's subject
	}
	if junk {
		vAssert(err != nil, "vocab:unknown-symbol-rejected")
		if err != nil {
			vAssert(VerifErrorHasCode(err), "vocab:error-carries-code")
		}
		vDone()
		return
	}
	tree := VerifReference(expr)
	if tree != nil {
		vAssert(err == nil, "vocab:sentence-accepted")
		if err == nil {
			want := VerifPostOrder(tree, nil)
			got := p.ResultTokens()
			vAssert(len(got) == len(want), "vocab:program-length")
			if len(got) == len(want) {
				for i := range want {
					vAssert(got[i].Type() == want[i].Kind, "vocab:program-is-postorder")
				}
			}
		}
	} else {
		vAssert(err != nil, "vocab:non-sentence-rejected")
		if err != nil {
			vAssert(VerifErrorHasCode(err), "vocab:error-carries-code")
		}
	}
	vDone()
}

// H_C02_nested: a fixed opening context followed by K symbolic-type tokens, so that
// the inside of calls, indexes and parentheses is explored two tokens deeper.
func H_C02_nested() {
	K := vParam("K")
	k := 1 + vChoice("len", K)
	var prefix []int
	switch vParam("CTX") {
	case 0:
		prefix = []int{Variable, LeftBrace} // f(
	case 1:
		prefix = []int{Variable, LeftSquareBrace} // a[
	case 2:
		prefix = []int{LeftBrace} // (
	case 3:
		prefix = []int{Variable, LeftBrace, Variable, Comma} // f(a,
	}
	var toks []*ExpressionToken
	for i, t := range prefix {
		toks = append(toks, VerifToken(t, i, nil))
	}
	rest := VerifSymTokens(k)
	for i, t := range rest {
		// renumber positions / names after the prefix
		v := t.Value()
		if t.Type() == Variable {
			v = nil
		}
		toks = append(toks, VerifToken(t.Type(), len(prefix)+i, v))
	}
	tree := VerifReference(toks)
	p := NewExpressionParser()
	err, panicked := guardedParse(func() error { return p.VerifParseInitialTokens(toks) })
	if panicked {
		vAssert(tree == nil, "parser:sentence-accepted")
		vDone()
		return
	}
	if tree != nil {
		vAssert(err == nil, "parser:sentence-accepted")
		if err == nil {
			VerifCheckProgram(p, tree)
		}
	} else {
		vAssert(err != nil, "parser:non-sentence-rejected")
		if err != nil {
			vAssert(VerifErrorHasCode(err), "parser:error-carries-code")
		}
	}
	vDone()
}
