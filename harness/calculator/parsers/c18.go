package parsers

import (
	"strings"

	"github.com/pip-services3-gox/pip-services3-expressions-gox/variants"
)

var c18Pool = []string{"a", "A", "b", "f"}

func collectVars(n *VerifNode, out []string) []string {
	// source order: operands left to right
	if n.Kind == Variable {
		return append(out, n.Tok.Value().AsString())
	}
	for _, a := range n.Args {
		out = collectVars(a, out)
	}
	return out
}

// H_C18_names: VariableNames covers exactly the identifiers in variable position.
func H_C18_names() {
	L := vParam("L")
	l := 1 + vChoice("len", L)
	toks := make([]*ExpressionToken, l)
	for i := range toks {
		typ := vInt("type")
		vAssume(vAnd(typ >= LeftBrace, typ <= Constant))
		vAssume(vAnd(vAnd(typ != NotIn, typ != Element), vAnd(typ != NotLike, typ != IsNull)))
		vAssume(vAnd(vAnd(typ != IsNotNull, typ != Unary), typ != Function))
		var val *variants.Variant
		if typ == Variable {
			val = variants.VariantFromString(c18Pool[vChoice("name", len(c18Pool))])
		} else if typ == Constant {
			// a string constant that looks like an identifier must never be reported
			val = variants.VariantFromString("a")
		} else {
			val = variants.Empty
		}
		toks[i] = NewExpressionToken(typ, val, 1, i+1)
	}
	tree := VerifReference(toks)
	vAssume(tree != nil)
	p := NewExpressionParser()
	if vChoice("used-before", 2) == 1 {
		// the parser instance has already compiled another expression over the same names
		guardedParse(func() error { return p.ParseString("a + A * b - f") })
	}
	err, panicked := guardedParse(func() error { return p.VerifParseInitialTokens(toks) })
	vAssume(!panicked && err == nil)
	occ := collectVars(tree, nil)
	// expected: first occurrences, exact spelling
	var want []string
	for _, n := range occ {
		dup := false
		for _, w := range want {
			if w == n {
				dup = true
			}
		}
		if !dup {
			want = append(want, n)
		}
	}
	got := p.VariableNames()
	// (i) only identifiers in variable position, each once, in order of first occurrence
	wi := 0
	for gi, g := range got {
		for gj := 0; gj < gi; gj++ {
			vAssert(got[gj] != g, "names:reported-once")
		}
		for wi < len(want) && want[wi] != g {
			wi++
		}
		vAssert(wi < len(want), "names:only-variable-position-in-first-occurrence-order")
		if wi >= len(want) {
			return
		}
		wi++
	}
	// (ii) every such identifier is covered (names differing only in case may be merged)
	for _, w := range want {
		covered := false
		for _, g := range got {
			if strings.ToUpper(g) == strings.ToUpper(w) {
				covered = true
			}
		}
		vAssert(covered, "names:every-variable-covered")
	}
	vDone()
}
