package calculator

import (
	"strings"

	cerrors "github.com/pip-services3-gox/pip-services3-commons-gox/errors"
	"github.com/pip-services3-gox/pip-services3-expressions-gox/calculator/variables"
	"github.com/pip-services3-gox/pip-services3-expressions-gox/variants"
)

var c18Exprs = []struct {
	text  string
	names []string // identifiers in variable position, first occurrence, exact spelling
}{
	{"a + A * b", []string{"a", "A", "b"}},
	{"max(a, B) + b", []string{"a", "B", "b"}},
	{"abs(x) > X AND \"quoted name\" = 'x'", []string{"x", "X", "quoted name"}},
	{"NOT a IS NULL OR TRUE", []string{"a"}},
	{"a[b] IN c", []string{"a", "b", "c"}},
}

// H_C18_autovars: with automatic variables on, the default collection ends up with exactly
// one entry per variable name compared case-insensitively, keeping what was already there.
func H_C18_autovars() {
	e := c18Exprs[vChoice("expr", len(c18Exprs))]
	calc := NewExpressionCalculator()
	// pre-populate 0..2 entries
	pre := vChoice("pre", 3)
	var preVars []variables.IVariable
	preNames := []string{"A", "zz"}
	for i := 0; i < pre; i++ {
		v := variables.NewVariable(preNames[i], variants.VariantFromInteger(vInt("pre.value")))
		calc.DefaultVariables().Add(v)
		preVars = append(preVars, v)
	}
	err := calc.SetExpression(e.text)
	vAssert(err == nil, "autovars:expression-accepted")
	if err != nil {
		return
	}
	dv := calc.DefaultVariables()
	// earlier entries and their values are untouched and stay first
	for i, v := range preVars {
		vAssert(dv.Get(i) == v, "autovars:existing-entries-kept")
	}
	// exactly one entry per name, case-insensitively
	for i := 0; i < dv.Length(); i++ {
		for j := 0; j < i; j++ {
			vAssert(strings.ToUpper(dv.Get(i).Name()) != strings.ToUpper(dv.Get(j).Name()), "autovars:one-entry-per-name")
		}
	}
	// every variable of the expression resolves
	distinct := map[string]bool{}
	for _, n := range e.names {
		vAssert(dv.FindByName(n) != nil, "autovars:every-variable-created")
		distinct[strings.ToUpper(n)] = true
	}
	for _, n := range preNames[:pre] {
		distinct[strings.ToUpper(n)] = true
	}
	vAssert(dv.Length() == len(distinct), "autovars:nothing-else-created")
	vDone()
}

func errCodeAndMessage(err error) (string, string) {
	if ae, ok := err.(*cerrors.ApplicationError); ok && ae != nil {
		return ae.Code, ae.Message
	}
	return "", ""
}

// H_C18_missing: a missing variable or function is reported as an error naming it.
func H_C18_missing() {
	calc := NewExpressionCalculator()
	calc.SetAutoVariables(false)
	which := vChoice("which", 2)
	text := "1 + missingVar"
	if which == 1 {
		text = "missingFunc(1) + 2"
	}
	err := calc.SetExpression(text)
	vAssert(err == nil, "missing:expression-accepted")
	if err != nil {
		return
	}
	res, everr := calc.Evaluate()
	vAssert(res == nil && everr != nil, "missing:is-an-error")
	if everr == nil {
		return
	}
	code, msg := errCodeAndMessage(everr)
	if which == 0 {
		vNote(code == "VAR_NOT_FOUND", "missing:variable-code") // the particular code is not part of the property: recorded only
		vAssert(strings.Contains(msg, "missingVar"), "missing:variable-named")
	} else {
		vNote(code == "FUNC_NOT_FOUND", "missing:function-code")
		vAssert(strings.Contains(msg, "missingFunc"), "missing:function-named")
	}
	// names resolve case-insensitively
	calc2 := NewExpressionCalculator()
	calc2.DefaultVariables().Add(variables.NewVariable("Abc", variants.VariantFromInteger(vInt("v"))))
	err = calc2.SetExpression("aBC + ABS(0)")
	vAssert(err == nil, "resolve:accepted")
	r2, e2 := calc2.Evaluate()
	vAssert(e2 == nil && r2 != nil, "resolve:case-insensitive")
	vDone()
}
