package calculator

import (
	"github.com/pip-services3-gox/pip-services3-expressions-gox/calculator/variables"
	"github.com/pip-services3-gox/pip-services3-expressions-gox/variants"
)

// H_C08_expr: functions called through expressions receive exactly their written arguments in order.
func H_C08_expr() {
	cases := []struct {
		text string
		name string
		args []string
	}{
		{"max(a, b, c)", "Max", []string{"a", "b", "c"}},
		{"MIN(c, a)", "Min", []string{"c", "a"}},
		{"Sum(a, b, c, a)", "Sum", []string{"a", "b", "c", "a"}},
		{"if(a > b, b, c)", "", nil},
		{"choose(2, a, b, c)", "", nil},
		{"timespan(a, b, c)", "TimeSpan", []string{"a", "b", "c"}},
		{"abs(a - b)", "", nil},
		{"array(a, b)[1]", "", nil},
	}
	ci := vChoice("case", len(cases))
	c := cases[ci]
	calc := NewExpressionCalculator()
	vars := variables.NewVariableCollection()
	vals := map[string]*variants.Variant{}
	for _, n := range []string{"a", "b", "c"} {
		x := vInt(n)
		vAssume(vAnd(x >= -(1<<15), x <= 1<<15))
		v := variants.VariantFromInteger(x)
		vals[n] = v
		vars.Add(variables.NewVariable(n, v))
	}
	err := calc.SetExpression(c.text)
	vAssert(err == nil, "expr:accepted")
	if err != nil {
		return
	}
	got, everr := calc.EvaluateUsingVariables(vars)
	vAssert((got != nil) != (everr != nil), "expr:result-xor-error")
	ops := variants.NewTypeUnsafeVariantOperations()
	a, b, cc := vals["a"], vals["b"], vals["c"]
	switch {
	case c.name != "":
		var params []*variants.Variant
		for _, n := range c.args {
			params = append(params, vals[n])
		}
		want, werr := calc.DefaultFunctions().FindByName(c.name).Calculate(params, ops)
		vAssert((werr == nil) == (everr == nil), "expr:same-outcome-as-direct-call")
		if werr == nil && everr == nil {
			vAssert(sameVariant(got, want), "expr:same-value-as-direct-call")
		}
	case ci == 3:
		vAssert(everr == nil, "expr:if-succeeds")
		if everr == nil {
			if a.AsInteger() > b.AsInteger() {
				vAssert(sameVariant(got, b), "expr:if-true-branch")
			} else {
				vAssert(sameVariant(got, cc), "expr:if-false-branch")
			}
		}
	case ci == 4:
		vAssert(everr == nil && sameVariant(got, b), "expr:choose-second")
	case ci == 6:
		d := a.AsInteger() - b.AsInteger()
		vAssert(everr == nil && got != nil && got.Type() == variants.Integer && got.AsInteger() == vIteInt(d < 0, -d, d), "expr:abs")
	case ci == 7:
		vAssert(everr == nil && sameVariant(got, b), "expr:array-index")
	}
	vDone()
}
