package calculator

import (
	"github.com/pip-services3-gox/pip-services3-expressions-gox/calculator/parsers"
	"github.com/pip-services3-gox/pip-services3-expressions-gox/variants"
)

// C03: untrusted input never crashes the library: a result or an error, always.

// H_C03_expression: any expression string of up to N characters.
func H_C03_expression() {
	N := vParam("N")
	lo := vParam("NMIN")
	n := lo + vChoice("n", N+1-lo)
	rs := make([]rune, n)
	for i := range rs {
		rs[i] = vRune("c")
	}
	calc := NewExpressionCalculator()
	calc.SetAutoVariables(vChoice("autovars", 2) == 1)
	var err error
	panicked := guarded(func() { err = calc.SetExpression(string(rs)) })
	vAssert(!panicked, "expression:set-no-crash")
	if panicked || err != nil {
		vDone()
		return
	}
	var r *variants.Variant
	var everr error
	panicked = guarded(func() { r, everr = calc.Evaluate() })
	vAssert(!panicked, "expression:evaluate-no-crash")
	if !panicked {
		vAssert((r != nil) != (everr != nil), "expression:result-xor-error")
	}
	vDone()
}

// H_C03_programs: every accepted token program of up to L tokens evaluated under variables
// of every supported kind (integer / Null / boolean / string / array, forked; payloads symbolic).
func H_C03_programs() {
	L := vParam("L")
	l := 1 + vChoice("len", L)
	toks := parsers.VerifSymTokens(l)
	calc := NewExpressionCalculator()
	var err error
	panicked := guarded(func() { err = calc.parser.VerifParseInitialTokens(toks) })
	vAssert(!panicked, "program:parse-no-crash")
	if panicked || err != nil {
		vDone()
		return
	}
	env := c01Setup(toks, vParam("VALS"))
	var r *variants.Variant
	var everr error
	panicked = guarded(func() { r, everr = calc.EvaluateUsingVariablesAndFunctions(env.vars, env.funcs) })
	vAssert(!panicked, "program:evaluate-no-crash")
	if !panicked {
		vAssert((r != nil) != (everr != nil), "program:result-xor-error")
	}
	vDone()
}
