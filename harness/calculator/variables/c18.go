package variables

import (
	"strings"

	"github.com/pip-services3-gox/pip-services3-expressions-gox/variants"
)

// C18 (collections): adding, locating, removing and clearing behave as on an ordered
// list; names resolve case-insensitively with the first one added winning.

var c18Names = []string{"a", "A", "b", "B", "ab"}

type c18Entry struct {
	name string
	v    IVariable
}

func c18Find(model []c18Entry, name string) int {
	for i, e := range model {
		if strings.ToUpper(e.name) == strings.ToUpper(name) {
			return i
		}
	}
	return -1
}

func c18Same(c *VariableCollection, model []c18Entry, tag string) {
	vAssert(c.Length() == len(model), tag+":length")
	if c.Length() != len(model) {
		return
	}
	all := c.GetAll()
	vAssert(len(all) == len(model), tag+":getall-length")
	for i, e := range model {
		vAssert(c.Get(i) == e.v, tag+":order")
		if i < len(all) {
			vAssert(all[i] == e.v, tag+":getall-order")
		}
	}
}

func H_C18_variables() {
	K := vParam("K")
	c := NewVariableCollection()
	var model []c18Entry
	for step := 0; step < K; step++ {
		name := c18Names[vChoice("name", len(c18Names))]
		switch vChoice("op", 8) {
		case 0:
			v := NewVariable(name, variants.VariantFromInteger(step))
			c.Add(v)
			model = append(model, c18Entry{name, v})
		case 1:
			i := c18Find(model, name)
			got := c.FindByName(name)
			if i < 0 {
				vAssert(got == nil, "find:absent")
			} else {
				vAssert(got == model[i].v, "find:first-added-wins")
			}
			vAssert(c.FindIndexByName(name) == i, "findindex")
		case 2:
			i := c18Find(model, name)
			got := c.Locate(name)
			if i < 0 {
				vAssert(got != nil && got.Name() == name, "locate:creates")
				model = append(model, c18Entry{name, got})
			} else {
				vAssert(got == model[i].v, "locate:existing")
			}
		case 3:
			if len(model) > 0 {
				i := vChoice("index", len(model))
				c.Remove(i)
				model = append(append([]c18Entry{}, model[:i]...), model[i+1:]...)
			}
		case 4:
			i := c18Find(model, name)
			c.RemoveByName(name)
			if i >= 0 {
				model = append(append([]c18Entry{}, model[:i]...), model[i+1:]...)
			}
		case 5:
			c.Clear()
			model = nil
		case 6:
			c.ClearValues()
			for _, e := range model {
				vAssert(e.v.Value() != nil && e.v.Value().IsNull(), "clearvalues:null")
			}
		case 7:
			// GetAll returns a copy: changing it does not change the collection
			all := c.GetAll()
			if len(all) > 0 {
				all[0] = nil
			}
		}
		c18Same(c, model, "list")
	}
	vDone()
}

// c18Letter: any Unicode scalar value (the solver picks the letters).
func c18Letter(tag string) rune {
	r := vRune(tag)
	vAssume(vOr(vAnd(r >= 0, r < 0xD800), vAnd(r > 0xDFFF, r <= 0x10FFFF)))
	return r
}

// H_C18_casefold: two names that differ in one (symbolic) character: they denote the same
// entry exactly when they are equal up to letter case - for every pair of characters, also
// those whose two cases have encodings of different lengths.
func H_C18_casefold() {
	n1 := "v" + string(c18Letter("n1")) + "x"
	n2 := "V" + string(c18Letter("n2")) + "X"
	c := NewVariableCollection()
	v1 := NewVariable(n1, variants.VariantFromInteger(1))
	c.Add(v1)
	same := strings.ToUpper(n1) == strings.ToUpper(n2)
	if same {
		vAssert(c.FindByName(n2) == v1, "casefold:found-in-the-other-case")
		vAssert(c.FindIndexByName(n2) == 0, "casefold:index")
		vAssert(c.Locate(n2) == v1 && c.Length() == 1, "casefold:locate-keeps-the-entry")
		c.RemoveByName(n2)
		vAssert(c.Length() == 0, "casefold:removed-by-the-other-case")
	} else {
		vAssert(c.FindByName(n2) == nil && c.FindIndexByName(n2) == -1, "casefold:different-names-differ")
		l := c.Locate(n2)
		vAssert(l != nil && l != v1 && c.Length() == 2, "casefold:locate-adds")
		c.RemoveByName(n2)
		vAssert(c.Length() == 1 && c.Get(0) == v1, "casefold:removes-only-its-own")
	}
	vDone()
}
