package io

// C11: the string scanner is a faithful cursor with position-only line/column.
// Inductive step from an arbitrary reachable state + base case + short histories.
// Only the exported API is used, so the harness is independent of how the
// scanner represents its state.

// refLC is the reference model: line/column after a forward scan up to and
// including position p (the end-of-input slot changes nothing).
func refLC(c []rune, p int) (int, int) {
	line, col := 1, 0
	for i := 0; i <= p && i < len(c); i++ {
		ch := c[i]
		before := rune(-1)
		if i > 0 {
			before = c[i-1]
		}
		after := rune(-1)
		if i+1 < len(c) {
			after = c[i+1]
		}
		isLF := ch == '\n'
		isCR := ch == '\r'
		brk := vOr(isLF, vAnd(isCR, vAnd(before != '\n', after != '\n')))
		line = vIteInt(brk, line+1, line)
		col = vIteInt(brk, 0, col)
		col = vIteInt(vOr(isLF, isCR), col, col+1)
	}
	return line, col
}

func c11Content() []rune {
	N := vParam("N")
	n := vChoice("n", N+1)
	c := make([]rune, n)
	for i := range c {
		c[i] = vRune("c")
	}
	return c
}

func c11Check(s *StringScanner, c []rune, p int, tag string) {
	// the cursor position is observed through the next character (contents are
	// symbolic, so a wrong position shows for some content) ...
	vAssert(s.Peek() == charAtRef(c, p+1), tag+":position")
	line, col := refLC(c, p)
	vAssert(s.Line() == line, tag+":line")
	vAssert(s.Column() == col, tag+":column")
}

// c11Probe ends a harness: two steps back and three forward tell the
// end-of-input slot from the last character and from anything beyond it
// (all of which peek -1).
func c11Probe(s *StringScanner, c []rune, p int, tag string) {
	n := len(c)
	for i := 0; i < 2; i++ {
		s.Unread()
		p = clampPos(p-1, n)
		c11Check(s, c, p, tag+":probe-back")
	}
	for i := 0; i < 3; i++ {
		r := s.Read()
		p = clampPos(p+1, n)
		vAssert(r == charAtRef(c, p), tag+":probe-read")
		c11Check(s, c, p, tag+":probe-forward")
	}
}

// c11Forward: a fresh scanner advanced to model position p through the API.
func c11Forward(c []rune, p int) *StringScanner {
	s := NewStringScanner(string(c))
	for i := 0; i <= p; i++ {
		s.Read()
	}
	return s
}

func clampPos(p, n int) int {
	if p < -1 {
		return -1
	}
	if p > n {
		return n
	}
	return p
}

func charAtRef(c []rune, p int) rune {
	if p < 0 || p >= len(c) {
		return -1
	}
	return c[p]
}

// c11Op applies operation op to s (model position p) and checks the result;
// returns the new model position.
func c11Op(s *StringScanner, c []rune, p int, op int) int {
	n := len(c)
	switch op {
	case 0:
		r := s.Read()
		p = clampPos(p+1, n)
		vAssert(r == charAtRef(c, p), "read:value")
		c11Check(s, c, p, "read")
	case 1:
		s.Unread()
		p = clampPos(p-1, n)
		c11Check(s, c, p, "unread")
	case 2:
		k := vChoice("k", n+3)
		s.UnreadMany(k)
		p = clampPos(p-k, n)
		c11Check(s, c, p, "unreadmany")
	case 3:
		r := s.Peek()
		vAssert(r == charAtRef(c, p+1), "peek:value")
		c11Check(s, c, p, "peek")
	case 4:
		pl := s.PeekLine()
		pc := s.PeekColumn()
		c11Check(s, c, p, "peeklc")
		if p+1 < n {
			l2, c2 := refLC(c, p+1)
			vAssert(pl == l2, "peekline:next")
			vAssert(pc == c2, "peekcolumn:next")
			// and they are what a subsequent Read reports
			s.Read()
			vAssert(s.Line() == pl, "peekline:read")
			vAssert(s.Column() == pc, "peekcolumn:read")
			p = p + 1
		}
	case 5:
		s.Reset()
		p = -1
		c11Check(s, c, p, "reset")
	}
	return p
}

// H_C11_step: one operation from the state a forward scan to any position p
// leaves (every reachable state is such a state if the step is inductive:
// the note records whether the state after the operation is structurally
// identical to the forward-scan state of the new position - then the claim
// covers histories of any length, otherwise only the bounded ones below).
func H_C11_step() {
	c := c11Content()
	n := len(c)
	p := vChoice("p", n+2) - 1
	s := c11Forward(c, p)
	c11Check(s, c, p, "forward")
	op := vChoice("op", 6)
	p2 := c11Op(s, c, p, op)
	vNote(vSameState(s, c11Forward(c, p2)), "step:state-is-a-function-of-the-position")
	c11Probe(s, c, p2, "step")
	vDone()
}

// H_C11_base: the constructor establishes the invariant at p = -1.
func H_C11_base() {
	c := c11Content()
	s := NewStringScanner(string(c))
	c11Check(s, c, -1, "base")
	c11Probe(s, c, -1, "base")
	vDone()
}

// H_C11_hist: K operations from a fresh scanner through the public API.
func H_C11_hist() {
	c := c11Content()
	s := NewStringScanner(string(c))
	p := -1
	K := vParam("K")
	for i := 0; i < K; i++ {
		op := vChoice("op", 6)
		p = c11Op(s, c, p, op)
	}
	c11Probe(s, c, p, "hist")
	vDone()
}
