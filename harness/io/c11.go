package io

// C11: the string scanner is a faithful cursor with position-only line/column.
// Inductive step from an arbitrary valid state + base case + short histories.

// refLC is the reference model: line/column after a forward scan up to and
// including position p (the end-of-input slot changes nothing).
func refLC(c []rune, p int) (int, int) {
	line, col := 1, 0
	for i := 0; i <= p && i < len(c); i++ {
		ch := c[i]
		before := rune(-1)
		if i > 0 {
			before = c[i-1]
		}
		after := rune(-1)
		if i+1 < len(c) {
			after = c[i+1]
		}
		isLF := ch == '\n'
		isCR := ch == '\r'
		brk := vOr(isLF, vAnd(isCR, vAnd(before != '\n', after != '\n')))
		line = vIteInt(brk, line+1, line)
		col = vIteInt(brk, 0, col)
		col = vIteInt(vOr(isLF, isCR), col, col+1)
	}
	return line, col
}

func c11Content() []rune {
	N := vParam("N")
	n := vChoice("n", N+1)
	c := make([]rune, n)
	for i := range c {
		c[i] = vRune("c")
	}
	return c
}

func c11Check(s *StringScanner, c []rune, p int, tag string) {
	vAssert(s.position == p, tag+":position")
	line, col := refLC(c, p)
	vAssert(s.Line() == line, tag+":line")
	vAssert(s.Column() == col, tag+":column")
}

func clampPos(p, n int) int {
	if p < -1 {
		return -1
	}
	if p > n {
		return n
	}
	return p
}

func charAtRef(c []rune, p int) rune {
	if p < 0 || p >= len(c) {
		return -1
	}
	return c[p]
}

// c11Op applies operation op to s (model position p) and checks the result;
// returns the new model position.
func c11Op(s *StringScanner, c []rune, p int, op int) int {
	n := len(c)
	switch op {
	case 0:
		r := s.Read()
		p = clampPos(p+1, n)
		vAssert(r == charAtRef(c, p), "read:value")
		c11Check(s, c, p, "read")
	case 1:
		s.Unread()
		p = clampPos(p-1, n)
		c11Check(s, c, p, "unread")
	case 2:
		k := vChoice("k", n+3)
		s.UnreadMany(k)
		p = clampPos(p-k, n)
		c11Check(s, c, p, "unreadmany")
	case 3:
		r := s.Peek()
		vAssert(r == charAtRef(c, p+1), "peek:value")
		c11Check(s, c, p, "peek")
	case 4:
		pl := s.PeekLine()
		pc := s.PeekColumn()
		c11Check(s, c, p, "peeklc")
		if p+1 < n {
			l2, c2 := refLC(c, p+1)
			vAssert(pl == l2, "peekline:next")
			vAssert(pc == c2, "peekcolumn:next")
			// and they are what a subsequent Read reports
			s.Read()
			vAssert(s.Line() == pl, "peekline:read")
			vAssert(s.Column() == pc, "peekcolumn:read")
			p = p + 1
		}
	case 5:
		s.Reset()
		p = -1
		c11Check(s, c, p, "reset")
	}
	return p
}

// H_C11_step: one operation from an arbitrary valid state.
func H_C11_step() {
	c := c11Content()
	n := len(c)
	p := vChoice("p", n+2) - 1
	line, col := refLC(c, p)
	s := &StringScanner{content: c, position: p, line: line, column: col}
	op := vChoice("op", 6)
	c11Op(s, c, p, op)
	vDone()
}

// H_C11_base: the constructor establishes the invariant at p = -1.
func H_C11_base() {
	c := c11Content()
	s := NewStringScanner(string(c))
	vAssert(len(s.content) == len(c), "base:length")
	c11Check(s, c, -1, "base")
	vDone()
}

// H_C11_hist: K operations from a fresh scanner through the public API.
func H_C11_hist() {
	c := c11Content()
	s := NewStringScanner(string(c))
	p := -1
	K := vParam("K")
	for i := 0; i < K; i++ {
		op := vChoice("op", 6)
		p = c11Op(s, c, p, op)
	}
	vDone()
}
