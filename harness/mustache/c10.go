package mustache

import "strings"

// C10: mustache rendering equals the reference semantics; malformed input is rejected.

const (
	ndText = iota
	ndVar
	ndEscaped
	ndComment
	ndSection     // {{#name}}
	ndSectionIf   // {{#if name}}
	ndInverted    // {{^name}}
	ndUnless      // {{#unless name}}
	ndKinds
)

type tnode struct {
	kind  int
	text  []rune // text nodes
	name  []rune // spelled name (letter case as written in the template)
	body  []*tnode
	close int // 0: by name, 1: anonymous /if or /unless
	pad   bool
}

var c10Names = []string{"a", "b"}

var c10Lite bool

func c10Name() []rune {
	base := []rune(c10Names[vChoice("name", len(c10Names))])
	if c10Lite {
		return base
	}
	out := make([]rune, len(base))
	for i, r := range base {
		out[i] = vIteRune(vBool("name.upper"), r-32, r)
	}
	return out
}

func c10Gen(budget *int, depth int) []*tnode {
	var out []*tnode
	for *budget > 0 {
		if vChoice("more", 2) == 0 {
			break
		}
		*budget--
		k := vChoice("kind", ndKinds)
		n := &tnode{kind: k}
		switch {
		case k == ndText:
			if len(out) > 0 && out[len(out)-1].kind == ndText {
				vAssume(false) // adjacent text nodes are one text node
			}
			if c10Lite {
				n.text = []rune{'x'}
			} else {
				ln := 1 + vChoice("text.len", 2)
				for i := 0; i < ln; i++ {
					r := vRune("t")
					vAssume(vAnd(r != '{', r != '}'))
					n.text = append(n.text, r)
				}
			}
		case k == ndComment:
			n.pad = !c10Lite && vChoice("comment.words", 2) == 1
		default:
			n.name = c10Name()
			n.pad = !c10Lite && vChoice("pad", 2) == 1
			if k >= ndSection {
				if depth <= 0 {
					vAssume(false)
				}
				if k == ndSectionIf || k == ndUnless {
					n.close = vChoice("close", 2)
				}
				n.body = c10Gen(budget, depth-1)
			}
		}
		out = append(out, n)
	}
	return out
}

func c10Print(nodes []*tnode, out []rune) []rune {
	app := func(s string) { out = append(out, []rune(s)...) }
	for _, n := range nodes {
		sp := ""
		if n.pad {
			sp = " "
		}
		switch n.kind {
		case ndText:
			out = append(out, n.text...)
		case ndVar:
			app("{{" + sp)
			out = append(out, n.name...)
			app(sp + "}}")
		case ndEscaped:
			app("{{{" + sp)
			out = append(out, n.name...)
			app(sp + "}}}")
		case ndComment:
			if n.pad {
				app("{{! two words }}")
			} else {
				app("{{!note}}")
			}
		default:
			switch n.kind {
			case ndSection:
				app("{{#" + sp)
			case ndSectionIf:
				app("{{#if ")
			case ndInverted:
				app("{{^" + sp)
			case ndUnless:
				app("{{#unless ")
			}
			out = append(out, n.name...)
			app(sp + "}}")
			out = c10Print(n.body, out)
			if n.close == 1 && n.kind == ndSectionIf {
				app("{{/if}}")
			} else if n.close == 1 && n.kind == ndUnless {
				app("{{/unless}}")
			} else {
				app("{{/")
				out = append(out, n.name...)
				app("}}")
			}
		}
	}
	return out
}

type c10Var struct {
	key   string
	value string
}

func c10Lookup(vars []c10Var, name []rune) (string, bool) {
	ln := strings.ToLower(string(name))
	for _, v := range vars {
		if strings.ToLower(v.key) == ln {
			return v.value, true
		}
	}
	return "", false
}

func c10Escape(s string) string {
	var out []rune
	for _, r := range []rune(s) {
		switch r {
		case '\\':
			out = append(out, '\\', '\\')
		case '"':
			out = append(out, '\\', '"')
		case '/':
			out = append(out, '\\', '/')
		case '\b':
			out = append(out, '\\', 'b')
		case '\f':
			out = append(out, '\\', 'f')
		case '\n':
			out = append(out, '\\', 'n')
		case '\r':
			out = append(out, '\\', 'r')
		case '\t':
			out = append(out, '\\', 't')
		default:
			out = append(out, r)
		}
	}
	return string(out)
}

// c10Render: the reference semantics.
func c10Render(nodes []*tnode, vars []c10Var) string {
	out := ""
	for _, n := range nodes {
		switch n.kind {
		case ndText:
			out += string(n.text)
		case ndVar:
			if v, ok := c10Lookup(vars, n.name); ok {
				out += v
			}
		case ndEscaped:
			if v, ok := c10Lookup(vars, n.name); ok {
				out += c10Escape(v)
			}
		case ndComment:
		case ndSection, ndSectionIf:
			if v, ok := c10Lookup(vars, n.name); ok && v != "" {
				out += c10Render(n.body, vars)
			}
		case ndInverted, ndUnless:
			if v, ok := c10Lookup(vars, n.name); !(ok && v != "") {
				out += c10Render(n.body, vars)
			}
		}
	}
	return out
}

func guardedM(f func()) (panicked bool) {
	defer func() {
		if r := recover(); r != nil {
			panicked = true
		}
	}()
	f()
	return false
}

func isTrimmed(r rune) bool {
	return vOr(vOr(r == ' ', r == '\t'), vOr(r == '\r', r == '\n'))
}

// H_C10_render: well-formed templates render per the reference semantics.
func H_C10_render() {
	budget := vParam("NODES")
	nodes := c10Gen(&budget, vParam("DEPTH"))
	vAssume(len(nodes) > 0)
	text := c10Print(nodes, nil)
	// the library trims the template: its two ends are not whitespace
	vAssume(!isTrimmed(text[0]))
	vAssume(!isTrimmed(text[len(text)-1]))
	// variable map: each name absent / empty / present with 1-2 symbolic runes; key letter case symbolic
	var vars []c10Var
	m := map[string]string{}
	for _, base := range c10Names {
		st := vChoice("var.state", 3)
		if st == 0 {
			continue
		}
		key := base
		if vChoice("key.upper", 2) == 1 {
			key = strings.ToUpper(base)
		}
		val := ""
		if st == 2 {
			ln := 1 + vChoice("val.len", 2)
			rs := make([]rune, ln)
			for i := range rs {
				rs[i] = vRune("v")
			}
			val = string(rs)
		}
		vars = append(vars, c10Var{key, val})
		m[key] = val
	}
	t := NewMustacheTemplate()
	t.SetAutoVariables(false)
	var err error
	if guardedM(func() { err = t.SetTemplate(string(text)) }) {
		vAssert(false, "render:well-formed-template-accepted")
		return
	}
	vAssert(err == nil, "render:well-formed-template-accepted")
	if err != nil {
		return
	}
	var got string
	var rerr error
	if guardedM(func() { got, rerr = t.EvaluateWithVariables(m) }) {
		vAssert(false, "render:no-crash")
		return
	}
	vAssert(rerr == nil, "render:succeeds")
	if rerr == nil {
		vAssert(got == c10Render(nodes, vars), "render:equals-reference")
	}
	vDone()
}

// ---------------------------------------------------------------------
// (b) accept / reject over the alphabet of template lexemes

const (
	lxOpen2 = iota
	lxClose2
	lxOpen3
	lxClose3
	lxHash
	lxCaret
	lxSlash
	lxBang
	lxIf
	lxUnless
	lxName
	lxSpace
	lxText
	lxKinds
)

type mlex struct {
	kind int
	text []rune
}

// c10Recognise: the reference recogniser over a lexeme sequence.
// Returns 1 accept, 0 reject, -1 no claim.
func c10Recognise(lx []mlex) int {
	type frame struct{ name string }
	var stack []frame
	i := 0
	n := len(lx)
	skipSpaces := func() {
		for i < n && lx[i].kind == lxSpace {
			i++
		}
	}
	for i < n {
		k := lx[i].kind
		switch k {
		case lxText, lxSpace:
			i++
			continue
		case lxOpen2, lxOpen3:
			closeKind := lxClose2
			if k == lxOpen3 {
				closeKind = lxClose3
			}
			i++
			if i < n && lx[i].kind == lxSpace {
				j := i
				for j < n && lx[j].kind == lxSpace {
					j++
				}
				if j < n && (lx[j].kind == lxHash || lx[j].kind == lxCaret || lx[j].kind == lxSlash || lx[j].kind == lxBang) {
					return -1 // a space between the braces and the operator: spelling not defined by the statement
				}
			}
			op := -1
			if i < n && (lx[i].kind == lxHash || lx[i].kind == lxCaret || lx[i].kind == lxSlash || lx[i].kind == lxBang) {
				op = lx[i].kind
				i++
			}
			if op == lxBang {
				// comment: everything up to the closing braces
				for i < n && lx[i].kind != lxClose2 && lx[i].kind != lxClose3 {
					i++
				}
				if i >= n || lx[i].kind != closeKind {
					return 0
				}
				i++
				continue
			}
			skipSpaces()
			word2 := -1
			if i < n && (lx[i].kind == lxIf || lx[i].kind == lxUnless) && op != -1 {
				word2 = lx[i].kind
				i++
				skipSpaces()
			}
			name := ""
			if i < n && (lx[i].kind == lxName || lx[i].kind == lxIf || lx[i].kind == lxUnless) {
				name = string(lx[i].text)
				i++
				skipSpaces()
			}
			if i >= n || lx[i].kind != closeKind {
				if i < n && (lx[i].kind == lxClose2 || lx[i].kind == lxClose3) {
					return 0 // mismatched brace counts
				}
				// other characters inside a tag are tokenised by the generic word/symbol states
				// (e.g. '-' continues a word): the statement does not define such tags
				for j := i; j < n && lx[j].kind != lxClose2 && lx[j].kind != lxClose3 && lx[j].kind != lxOpen2 && lx[j].kind != lxOpen3; j++ {
					if lx[j].kind == lxText {
						return -1
					}
				}
				return 0 // unclosed tag / stray lexeme inside a tag
			}
			i++
			switch {
			case op == -1:
				if name == "" {
					return 0
				}
			case op == lxHash || op == lxCaret:
				if op == lxCaret && word2 != -1 {
					return -1 // '^if name' is not a spelling the statement defines
				}
				if name == "" {
					if word2 == -1 {
						return 0
					}
					// '{{#if}}': a section on a variable called "if"
					name = "if"
					if word2 == lxUnless {
						name = "unless"
					}
				}
				stack = append(stack, frame{name})
			case op == lxSlash:
				if len(stack) == 0 {
					return 0 // unopened section
				}
				top := stack[len(stack)-1]
				if word2 != -1 && name == "" {
					// {{/if}} / {{/unless}} close anonymously
				} else if word2 != -1 {
					return -1
				} else if name == "" {
					return -1 // '{{/}}'
				} else if name != top.name {
					return 0 // mismatched section
				}
				stack = stack[:len(stack)-1]
			}
		default:
			// a closing brace pair or a stray operator / word outside a tag is literal text only
			// when it is a word or operator; stray closing braces are not defined
			if k == lxClose2 || k == lxClose3 {
				return -1
			}
			i++
		}
	}
	if len(stack) > 0 {
		return 0 // unclosed section
	}
	return 1
}

// H_C10_lexemes: accept/reject for every sequence of L template lexemes.
func H_C10_lexemes() {
	L := vParam("L")
	l := 1 + vChoice("len", L)
	var lx []mlex
	var text []rune
	for i := 0; i < l; i++ {
		k := vChoice("lex", lxKinds)
		var t []rune
		switch k {
		case lxOpen2:
			t = []rune("{{")
		case lxClose2:
			t = []rune("}}")
		case lxOpen3:
			t = []rune("{{{")
		case lxClose3:
			t = []rune("}}}")
		case lxHash:
			t = []rune("#")
		case lxCaret:
			t = []rune("^")
		case lxSlash:
			t = []rune("/")
		case lxBang:
			t = []rune("!")
		case lxIf:
			t = []rune("if")
		case lxUnless:
			t = []rune("unless")
		case lxName:
			r := vRune("n")
			vAssume(vOr(vAnd(r >= 'a', r <= 'z'), vAnd(r >= 'A', r <= 'Z')))
			t = []rune{r, 'x'}
		case lxSpace:
			t = []rune(" ")
		case lxText:
			r := vRune("t")
			vAssume(vAnd(vAnd(r != '{', r != '}'), vAnd(r > ' ', vAnd(r != '"', r != '\''))))
			// text that is not itself one of the tag lexemes
			vAssume(vAnd(vAnd(r != '#', r != '^'), vAnd(r != '/', r != '!')))
			vAssume(!vOr(vOr(vAnd(r >= 'a', r <= 'z'), vAnd(r >= 'A', r <= 'Z')), vOr(vAnd(r >= '0', r <= '9'), r == '_')))
			vAssume(r < 0xc0)
			t = []rune{r}
		}
		// never more than three equal braces in a row, and no two words glued together
		if len(lx) > 0 {
			p := lx[len(lx)-1].kind
			if (p == lxOpen2 || p == lxOpen3) && (k == lxOpen2 || k == lxOpen3) {
				vAssume(false)
			}
			if (p == lxClose2 || p == lxClose3) && (k == lxClose2 || k == lxClose3) {
				vAssume(false)
			}
			pw := p == lxIf || p == lxUnless || p == lxName
			kw := k == lxIf || k == lxUnless || k == lxName
			if pw && kw {
				vAssume(false)
			}
			if p == lxSpace && k == lxSpace {
				vAssume(false)
			}
		}
		lx = append(lx, mlex{k, t})
		text = append(text, t...)
	}
	// the library trims the template
	vAssume(lx[0].kind != lxSpace && lx[len(lx)-1].kind != lxSpace)
	want := c10Recognise(lx)
	t := NewMustacheTemplate()
	var err error
	panicked := guardedM(func() { err = t.SetTemplate(string(text)) })
	vAssert(!panicked, "lexemes:no-crash")
	if panicked {
		return
	}
	if want == 1 {
		vAssert(err == nil, "lexemes:well-formed-accepted")
	} else if want == 0 {
		vAssert(err != nil, "lexemes:malformed-rejected")
	}
	vDone()
}

// H_C10_malformed: unclosed tags, unclosed / unopened / mismatched sections and mismatched
// brace counts are rejected with an error (never a crash).
func H_C10_malformed() {
	opener := []string{"{{#", "{{#if ", "{{^", "{{#unless "}[vChoice("opener", 4)]
	name := string(c10Name())
	other := "zz"
	body := ""
	if vChoice("body", 2) == 1 {
		r := vRune("t")
		vAssume(vAnd(vAnd(r != '{', r != '}'), vAnd(r != ' ', vAnd(r != '\t', vAnd(r != '\r', r != '\n')))))
		body = string([]rune{r})
	}
	var text string
	switch vChoice("case", 9) {
	case 0:
		text = opener + name + "}}" + body
	case 1:
		text = opener + name + "}}" + body + "{{/" + other + "}}"
	case 2:
		text = "x" + body + "{{/" + name + "}}"
	case 3:
		text = "{{" + name + "}}}"
	case 4:
		text = "{{{" + name + "}}"
	case 5:
		text = "x" + body + "{{" + name
	case 6:
		text = opener + name + "}}" + body + "{{/" + name + "}}{{/" + name + "}}"
	case 7:
		text = "{{#" + name + "}}{{^" + other + "}}" + body + "{{/" + name + "}}{{/" + other + "}}"
	case 8:
		text = opener + name + "}}" + body + "{{/" + name
	}
	t := NewMustacheTemplate()
	var err error
	panicked := guardedM(func() { err = t.SetTemplate(text) })
	vAssert(!panicked, "malformed:no-crash")
	if !panicked {
		vAssert(err != nil, "malformed:rejected")
	}
	vDone()
}

// H_C10_structure: larger template trees (NODES nodes, nesting DEPTH) with concrete text,
// lower-case names and concrete variable states: nesting, closers and section conditions.
func H_C10_structure() {
	c10Lite = true
	budget := vParam("NODES")
	nodes := c10Gen(&budget, vParam("DEPTH"))
	vAssume(len(nodes) > 0)
	text := c10Print(nodes, nil)
	var vars []c10Var
	m := map[string]string{}
	for _, base := range c10Names {
		switch vChoice("var.state", 3) {
		case 1:
			vars = append(vars, c10Var{base, ""})
			m[base] = ""
		case 2:
			vars = append(vars, c10Var{base, "V/" + base})
			m[base] = "V/" + base
		}
	}
	t := NewMustacheTemplate()
	t.SetAutoVariables(false)
	var err error
	if guardedM(func() { err = t.SetTemplate(string(text)) }) {
		vAssert(false, "structure:well-formed-template-accepted")
		return
	}
	vAssert(err == nil, "structure:well-formed-template-accepted")
	if err != nil {
		return
	}
	got, rerr := t.EvaluateWithVariables(m)
	vAssert(rerr == nil, "structure:render-succeeds")
	if rerr == nil {
		vAssert(got == c10Render(nodes, vars), "structure:render-equals-reference")
	}
	vDone()
}
