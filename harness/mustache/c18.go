package mustache

import "strings"

func c18Names(nodes []*tnode, out []string) []string {
	for _, n := range nodes {
		if n.kind != ndText && n.kind != ndComment {
			out = append(out, string(n.name))
			out = c18Names(n.body, out)
		}
	}
	return out
}

// H_C18_mustache: reported variable names are exactly the names in variable position
// (never the section words if/unless), once each in order of first occurrence; automatic
// variables add exactly the missing ones.
func H_C18_mustache() {
	budget := vParam("NODES")
	nodes := c10Gen(&budget, vParam("DEPTH"))
	vAssume(len(nodes) > 0)
	text := c10Print(nodes, nil)
	vAssume(!isTrimmed(text[0]))
	vAssume(!isTrimmed(text[len(text)-1]))
	t := NewMustacheTemplate()
	t.SetAutoVariables(false)
	var err error
	if vChoice("used-before", 2) == 1 {
		// the template instance has already compiled another template over the same names
		guardedM(func() { _ = t.SetTemplate("{{a}}{{#B}}{{x}}{{/B}}{{^Ab}}.{{/Ab}}") })
	}
	if guardedM(func() { err = t.SetTemplate(string(text)) }) {
		return
	}
	vAssume(err == nil)
	occ := c18Names(nodes, nil)
	var want []string // first occurrences, merged case-insensitively
	for _, n := range occ {
		dup := false
		for _, w := range want {
			if strings.ToLower(w) == strings.ToLower(n) {
				dup = true
			}
		}
		if !dup {
			want = append(want, n)
		}
	}
	got := t.parser.VariableNames()
	for _, g := range got {
		lg := strings.ToLower(g)
		vAssert(lg != "if" && lg != "unless", "names:never-section-words")
	}
	// each identifier covered once (case-insensitively), in order of first occurrence
	vAssert(len(got) <= len(occ), "names:no-extra")
	wi := 0
	for gi, g := range got {
		for gj := 0; gj < gi; gj++ {
			vAssert(got[gj] != g, "names:reported-once")
		}
		inOcc := false
		for _, o := range occ {
			if o == g {
				inOcc = true
			}
		}
		vAssert(inOcc, "names:only-variable-position")
		_ = wi
	}
	for _, w := range want {
		covered := false
		for _, g := range got {
			if strings.ToLower(g) == strings.ToLower(w) {
				covered = true
			}
		}
		vAssert(covered, "names:every-variable-covered")
	}
	// automatic variables: exactly the missing names are added, existing entries kept
	vars := map[string]string{}
	pre := vChoice("pre", 2) == 1
	if pre {
		vars["A"] = "kept"
	}
	t.CreateVariables(&vars)
	if pre {
		vAssert(vars["A"] == "kept", "autovars:existing-kept")
	}
	for _, w := range want {
		vAssert(t.GetVariable(vars, w) != nil, "autovars:every-variable-created")
	}
	n := len(want)
	if pre {
		hasA := false
		for _, w := range want {
			if strings.ToLower(w) == "a" {
				hasA = true
			}
		}
		if !hasA {
			n++
		}
	}
	vAssert(len(vars) == n, "autovars:one-entry-per-name")
	vDone()
}
