package mustache

// H_C19_render: rendering a parsed template is pure and repeatable.
func H_C19_render() {
	budget := vParam("NODES")
	nodes := c10Gen(&budget, vParam("DEPTH"))
	vAssume(len(nodes) > 0)
	text := c10Print(nodes, nil)
	vAssume(!isTrimmed(text[0]))
	vAssume(!isTrimmed(text[len(text)-1]))
	t := NewMustacheTemplate()
	t.SetAutoVariables(false)
	var err error
	if guardedM(func() { err = t.SetTemplate(string(text)) }) {
		return
	}
	vAssume(err == nil)
	v1 := map[string]string{"a": string([]rune{vRune("v")}), "B": ""}
	v1b := map[string]string{"a": v1["a"], "B": ""}
	v2 := map[string]string{"A": "other"}
	nTokens := len(t.ResultTokens())
	var o1, o3 string
	var e1, e3 error
	vWriteSetBegin()
	vConcurrently(func(i int) {
		vars := v1
		if i == 1 {
			vars = v1b
		}
		o, e := t.EvaluateWithVariables(vars)
		if i == 0 {
			o1, e1 = o, e
		}
	})
	vWriteSetEnd("ws:render-writes-only-fresh-objects")
	t.EvaluateWithVariables(v2)
	o3, e3 = t.EvaluateWithVariables(v1)
	vAssert((e1 == nil) == (e3 == nil), "render:same-outcome")
	vAssert(o1 == o3, "render:equal-output-for-equal-inputs")
	vAssert(len(t.ResultTokens()) == nTokens, "render:program-unchanged")
	vAssert(len(v1) == 2 && v1["B"] == "", "render:variables-unchanged")
	vDone()
}
