package mustache

// H_C03_template: any template string of up to N characters: parse and render never crash.
func H_C03_template() {
	N := vParam("N")
	lo := vParam("NMIN")
	n := lo + vChoice("n", N+1-lo)
	rs := make([]rune, n)
	for i := range rs {
		rs[i] = vRune("c")
	}
	t := NewMustacheTemplate()
	var err error
	panicked := guardedM(func() { err = t.SetTemplate(string(rs)) })
	vAssert(!panicked, "template:set-no-crash")
	if panicked || err != nil {
		vDone()
		return
	}
	panicked = guardedM(func() { t.EvaluateWithVariables(map[string]string{"a": "x"}) })
	vAssert(!panicked, "template:render-no-crash")
	vDone()
}
