package mustache

import (
	"strconv"
	"strings"

	cerrors "github.com/pip-services3-gox/pip-services3-commons-gox/errors"
)

// C12 (consequence): positions quoted in template errors point at the
// offending token. The library trims the template first, so the template here
// starts with a non-blank character (stated assumption shared by all template
// harnesses); the symbolic layout characters sit inside the template.

func c12Scan(c []rune, p int) (int, int) {
	line, col := 1, 0
	for i := 0; i <= p && i < len(c); i++ {
		ch := c[i]
		brk := false
		if ch == '\n' {
			brk = true
		} else if ch == '\r' {
			brk = true
			if i > 0 && c[i-1] == '\n' {
				brk = false
			}
			if i+1 < len(c) && c[i+1] == '\n' {
				brk = false
			}
		}
		if brk {
			line++
			col = 0
		}
		if ch != '\n' && ch != '\r' {
			col++
		}
	}
	return line, col
}

type c12Shape struct {
	prefix   string
	offender string
	tail     string
	code     string
}

var c12Shapes = []c12Shape{
	{"ab{{x", "}}}", "", "MISTMATCHED_BRACKETS"},
	{"ab{{{x", "}}", "c", "MISTMATCHED_BRACKETS"},
	{"ab{{x", "$", "}}", "UNEXPECTED_SYMBOL"},
	{"ab{{#", "#", "x}}", "UNEXPECTED_SYMBOL"},
	{"{{x}}{{", "}}", "", "UNEXPECTED_SYMBOL"},
	{"{{#x}}t{{/x", "/", "}}", "UNEXPECTED_SYMBOL"},
}

// H_C12_template: N symbolic layout characters inside a tag (or template
// text with line breaks before the tag) ahead of the offending token.
func H_C12_template() {
	N := vParam("N")
	sh := c12Shapes[vChoice("shape", len(c12Shapes))]
	var text []rune
	// optional literal text with symbolic line breaks ahead of everything (kept non-blank at the start)
	lead := vChoice("lead", 2)
	if lead == 1 {
		w := vRune("lead")
		vAssume(vAnd(w >= 0, w <= ' '))
		text = append(text, 'q', w)
	}
	text = append(text, []rune(sh.prefix)...)
	n := vChoice("n", N+1)
	for i := 0; i < n; i++ {
		w := vRune("ws")
		vAssume(vAnd(w >= 0, w <= ' '))
		text = append(text, w)
	}
	at := len(text)
	text = append(text, []rune(sh.offender)...)
	text = append(text, []rune(sh.tail)...)
	t := NewMustacheTemplate()
	var err error
	panicked := guardedM(func() { err = t.SetTemplate(string(text)) })
	vAssert(!panicked && err != nil, "errorpos:rejected")
	if panicked || err == nil {
		vDone()
		return
	}
	ae, ok := err.(*cerrors.ApplicationError)
	vAssert(ok && ae != nil, "errorpos:application-error")
	if !ok || ae == nil {
		vDone()
		return
	}
	vAssert(ae.Code == sh.code, "errorpos:code")
	line, col := c12Scan(text, at)
	want := " at line " + strconv.Itoa(line) + " and column " + strconv.Itoa(col)
	vAssert(strings.HasSuffix(ae.Message, want), "errorpos:points-at-offending-token")
	vDone()
}
