package mustache

import (
	cerrors "github.com/pip-services3-gox/pip-services3-commons-gox/errors"
)

// C12 (consequence): positions quoted in template errors point at the
// offending token. The library trims the template first, so the template here
// starts with a non-blank character (stated assumption shared by all template
// harnesses); the symbolic layout characters sit inside the template.

func c12Scan(c []rune, p int) (int, int) {
	line, col := 1, 0
	for i := 0; i <= p && i < len(c); i++ {
		ch := c[i]
		brk := false
		if ch == '\n' {
			brk = true
		} else if ch == '\r' {
			brk = true
			if i > 0 && c[i-1] == '\n' {
				brk = false
			}
			if i+1 < len(c) && c[i+1] == '\n' {
				brk = false
			}
		}
		if brk {
			line++
			col = 0
		}
		if ch != '\n' && ch != '\r' {
			col++
		}
	}
	return line, col
}

type c12Shape struct {
	prefix   string
	offender string
	tail     string
	code     string
}

var c12Shapes = []c12Shape{
	{"ab{{x", "}}}", "", "MISTMATCHED_BRACKETS"},
	{"ab{{{x", "}}", "c", "MISTMATCHED_BRACKETS"},
	{"ab{{x", "$", "}}", "UNEXPECTED_SYMBOL"},
	{"ab{{#", "#", "x}}", "UNEXPECTED_SYMBOL"},
	{"{{x}}{{", "}}", "", "UNEXPECTED_SYMBOL"},
	{"{{#x}}t{{/x", "/", "}}", "UNEXPECTED_SYMBOL"},
}

// H_C12_template: N symbolic layout characters inside a tag (or template
// text with line breaks before the tag) ahead of the offending token.
func H_C12_template() {
	N := vParam("N")
	sh := c12Shapes[vChoice("shape", len(c12Shapes))]
	var text []rune
	// optional literal text with symbolic line breaks ahead of everything (kept non-blank at the start)
	lead := vChoice("lead", 2)
	if lead == 1 {
		w := vRune("lead")
		vAssume(vAnd(w >= 0, w <= ' '))
		text = append(text, 'q', w)
	}
	text = append(text, []rune(sh.prefix)...)
	n := vChoice("n", N+1)
	for i := 0; i < n; i++ {
		w := vRune("ws")
		vAssume(vAnd(w >= 0, w <= ' '))
		text = append(text, w)
	}
	at := len(text)
	text = append(text, []rune(sh.offender)...)
	text = append(text, []rune(sh.tail)...)
	t := NewMustacheTemplate()
	var err error
	panicked := guardedM(func() { err = t.SetTemplate(string(text)) })
	vAssert(!panicked && err != nil, "errorpos:rejected")
	if panicked || err == nil {
		vDone()
		return
	}
	ae, ok := err.(*cerrors.ApplicationError)
	vAssert(ok && ae != nil, "errorpos:application-error")
	if !ok || ae == nil {
		vDone()
		return
	}
	vAssert(ae.Code != "", "errorpos:carries-a-code")
	line, col := c12Scan(text, at)
	// independent of the wording: the last two numbers of the message are the line and the column
	gotLine, gotCol, quoted := c12LastTwoInts(ae.Message)
	vNote(quoted, "errorpos:message-quotes-a-position") // no position quoted: nothing to point anywhere (recorded only)
	if quoted {
		vAssert(gotLine == line && gotCol == col, "errorpos:points-at-offending-token")
	}
	vDone()
}

// c12LastTwoInts: the last two decimal numbers that occur in s.
func c12LastTwoInts(s string) (a, b int, ok bool) {
	var nums []int
	cur, in := 0, false
	for i := 0; i < len(s); i++ {
		ch := s[i]
		if ch >= '0' && ch <= '9' {
			cur = cur*10 + int(ch-'0')
			in = true
		} else if in {
			nums = append(nums, cur)
			cur, in = 0, false
		}
	}
	if in {
		nums = append(nums, cur)
	}
	if len(nums) < 2 {
		return 0, 0, false
	}
	return nums[len(nums)-2], nums[len(nums)-1], true
}
