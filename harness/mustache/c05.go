package mustache

var c05Templates = []string{
	"Hello {{name}}!", "{{#a}}x{{/a}}y", "{{^a}}no{{/a}}", "{{{a}}}", "{{#a}}unclosed", "{{a", "x{{/a}}", "plain", "{{!c}}z", "{{#if a}}1{{/if}}{{b}}", "",
}

// H_C05_template: template T1 (set and rendered) then T2 on one instance vs. T2 on a fresh one.
func H_C05_template() {
	t1 := c05Templates[vChoice("first", len(c05Templates))]
	t2 := c05Templates[vChoice("second", len(c05Templates))]
	val := string([]rune{vRune("v")})
	vars := map[string]string{"a": val, "name": "N"}
	if vChoice("a-empty", 2) == 1 {
		vars["a"] = ""
	}
	t := NewMustacheTemplate()
	t.SetAutoVariables(false)
	guardedM(func() {
		if t.SetTemplate(t1) == nil {
			t.EvaluateWithVariables(vars)
		}
	})
	f := NewMustacheTemplate()
	f.SetAutoVariables(false)
	var e1, e2, r1e, r2e error
	var o1, o2 string
	p1 := guardedM(func() {
		e1 = t.SetTemplate(t2)
		if e1 == nil {
			o1, r1e = t.EvaluateWithVariables(vars)
		}
	})
	p2 := guardedM(func() {
		e2 = f.SetTemplate(t2)
		if e2 == nil {
			o2, r2e = f.EvaluateWithVariables(vars)
		}
	})
	vAssert(p1 == p2, "template-reuse:outcome")
	if p1 || p2 {
		return
	}
	vAssert((e1 == nil) == (e2 == nil), "template-reuse:accept")
	if e1 == nil && e2 == nil {
		vAssert((r1e == nil) == (r2e == nil), "template-reuse:render-outcome")
		vAssert(o1 == o2, "template-reuse:rendering")
		a, b := t.parser.VariableNames(), f.parser.VariableNames()
		vAssert(len(a) == len(b), "template-reuse:variables")
	}
	vDone()
}
