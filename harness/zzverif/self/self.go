package self

// Translator validation: these harnesses run the repository's own test fixtures (and a set of
// Go-semantics micro cases) both natively and inside the symbolic engine in concrete mode; the
// observations printed by the two executions must be identical (`symgo selftest`).

import (
	"strconv"
	"strings"
	"time"

	"github.com/pip-services3-gox/pip-services3-expressions-gox/calculator"
	ctok "github.com/pip-services3-gox/pip-services3-expressions-gox/calculator/tokenizers"
	"github.com/pip-services3-gox/pip-services3-expressions-gox/calculator/variables"
	"github.com/pip-services3-gox/pip-services3-expressions-gox/csv"
	"github.com/pip-services3-gox/pip-services3-expressions-gox/io"
	"github.com/pip-services3-gox/pip-services3-expressions-gox/mustache"
	mtok "github.com/pip-services3-gox/pip-services3-expressions-gox/mustache/tokenizers"
	"github.com/pip-services3-gox/pip-services3-expressions-gox/tokenizers"
	"github.com/pip-services3-gox/pip-services3-expressions-gox/tokenizers/generic"
	"github.com/pip-services3-gox/pip-services3-expressions-gox/variants"
)

func obsTokens(tag string, toks []*tokenizers.Token) {
	for i, t := range toks {
		vObserve(tag+"["+strconv.Itoa(i)+"]", strconv.Itoa(t.Type())+":"+t.Value()+"@"+strconv.Itoa(t.Line())+":"+strconv.Itoa(t.Column()))
	}
}

func H_self_scanner() {
	s := io.NewStringScanner("Test String\na\r\nb\n\rc\r\rd")
	for i := 0; i < 24; i++ {
		pl, pc := s.PeekLine(), s.PeekColumn()
		r := s.Read()
		vObserve("read", strconv.Itoa(int(r))+" "+strconv.Itoa(s.Line())+":"+strconv.Itoa(s.Column())+" peek "+strconv.Itoa(pl)+":"+strconv.Itoa(pc))
	}
	s.UnreadMany(7)
	vObserve("after-unread", strconv.Itoa(s.Line())+":"+strconv.Itoa(s.Column())+" next "+strconv.Itoa(int(s.Peek())))
	s.Reset()
	vObserve("after-reset", strconv.Itoa(s.Line())+":"+strconv.Itoa(s.Column()))
	vDone()
}

func H_self_tokenizers() {
	g := generic.NewGenericTokenizer()
	obsTokens("generic", g.TokenizeBuffer("A+B/123 - \t 3.45\n\r\n\r -#comment\n-1.5 <> <= >= 'q''q' \"x\" éЖ ."))
	g.SetSkipWhitespaces(true)
	g.SetMergeWhitespaces(true)
	g.SetUnifyNumbers(true)
	g.SetDecodeStrings(true)
	obsTokens("generic-opts", g.TokenizeBuffer("a  'b' 12 1.5 #c\n  d"))
	e := ctok.NewExpressionTokenizer()
	obsTokens("expression", e.TokenizeBuffer("A + b / (3 - Max(-123, 1)*2) - 'xy''z' <= 1.2e+3 /*c*/ and NOT x2 != \"q n\" >> << 5e 6E-2 -"))
	c := csv.NewCsvTokenizer()
	obsTokens("csv", c.TokenizeBuffer("1,\"a\"\"b\",x y\r\n2,,\n\r3\r4"))
	c.SetFieldSeparators([]rune{';', '\t'})
	c.SetQuoteSymbols([]rune{'\'', '«'})
	c.SetDecodeStrings(true)
	obsTokens("csv2", c.TokenizeBuffer("'a;b';«q««z«\tw"))
	m := mtok.NewMustacheTokenizer()
	obsTokens("mustache", m.TokenizeBuffer("Hello, {{ Name }}! {{#if x}}y{{/if}} {{{raw}}} { z"))
	vDone()
}

func H_self_calculator() {
	exprs := []string{
		"2 + 2", "A + b / (3 - Max(-123, 1)*2)", "'abc'[1]", "1 > 2", "2 IN ARRAY(1,2,3)", "5 NOT IN ARRAY(1,2,3)",
		"ABS(1)", "(2 + 2) * ABS(-2)", "1 - (1 + 1) - (2 - 4)", "2 ^ 10", "7 % 3", "'a' + 'b'", "1 / 0", "2 << 3 >> 1",
		"NOT TRUE OR FALSE XOR TRUE", "A IS NULL", "b IS NOT NULL AND 1.5 * 2 >= 3", "Sum(1,2,3) + Min(4,2) - If(1>2, 10, 20)",
		"1 +", "(1", "f(1,)", "a b", "Choose(2, 'x', 'y', 'z')", "TimeSpan(1,2,3,4,5)", "Sqrt(16) + Floor(2.5) + Round(2.5) + Ceil(2.1)",
		"Contains('abcd', 'bc')", "-a[1]", "1.5e2 + .5", "3 LIKE 4",
	}
	for i, x := range exprs {
		calc := calculator.NewExpressionCalculator()
		vars := variables.NewVariableCollection()
		vars.Add(variables.NewVariable("A", variants.VariantFromString("xyz")))
		vars.Add(variables.NewVariable("B", variants.VariantFromString("123")))
		vars.Add(variables.NewVariable("a", variants.VariantFromArray([]*variants.Variant{variants.VariantFromInteger(5), variants.VariantFromInteger(6)})))
		tag := "expr" + strconv.Itoa(i)
		err := calc.SetExpression(x)
		if err != nil {
			vObserve(tag, "parse-error: "+err.Error())
			continue
		}
		types := ""
		for _, t := range calc.ResultTokens() {
			types += strconv.Itoa(t.Type()) + " "
		}
		vObserve(tag+".program", types)
		r, everr := calc.EvaluateUsingVariables(vars)
		if everr != nil {
			vObserve(tag, "eval-error: "+everr.Error())
		} else {
			vObserve(tag, strconv.Itoa(int(r.Type()))+"="+r.String())
		}
	}
	vDone()
}

func H_self_mustache() {
	templates := []string{
		"Hello, {{{NAME}}}{{ #if ESCLAMATION }}!{{/if}}{{{^ESCLAMATION}}}.{{{/ESCLAMATION}}}",
		"{{#a}}in {{b}} {{/a}}{{^a}}out{{/a}}{{! note }} {{{c}}}",
		"{{#unless a}}U{{/unless}}{{#a}}{{#b}}nested{{/b}}{{/a}}",
		"{{#a}}unclosed", "{{a}}}", "x{{/a}}",
	}
	for i, tpl := range templates {
		t := mustache.NewMustacheTemplate()
		tag := "tpl" + strconv.Itoa(i)
		if err := t.SetTemplate(tpl); err != nil {
			vObserve(tag, "error: "+err.Error())
			continue
		}
		for j, vars := range []map[string]string{{"NAME": "Mike", "ESCLAMATION": "true"}, {"name": "a/b\"c\\", "A": "1", "b": "é", "c": "t\tn\n"}, {}} {
			out, err := t.EvaluateWithVariables(vars)
			if err != nil {
				vObserve(tag+"."+strconv.Itoa(j), "error: "+err.Error())
			} else {
				vObserve(tag+"."+strconv.Itoa(j), out)
			}
		}
	}
	vDone()
}

func H_self_variants() {
	u := variants.NewTypeUnsafeVariantOperations()
	s := variants.NewTypeSafeVariantOperations()
	vals := []*variants.Variant{
		variants.VariantFromInteger(123), variants.VariantFromLong(-9007199254740993), variants.VariantFromFloat(2.5), variants.VariantFromDouble(-0.75),
		variants.VariantFromString("42"), variants.VariantFromString("x"), variants.VariantFromBoolean(true), variants.EmptyVariant(),
	}
	for i, v := range vals {
		for t := variants.Null; t <= variants.Array; t++ {
			for k, m := range []variants.IVariantOperations{u, s} {
				tag := "conv" + strconv.Itoa(i) + "." + strconv.Itoa(int(t)) + "." + strconv.Itoa(k)
				if t == variants.DateTime || v.Type() == variants.DateTime {
					continue
				}
				r, err := m.Convert(v, t)
				if err != nil {
					vObserve(tag, "error")
				} else {
					vObserve(tag, strconv.Itoa(int(r.Type()))+"="+r.String())
				}
			}
		}
	}
	a, b := variants.VariantFromInteger(7), variants.VariantFromDouble(2)
	for i, f := range []func(x, y *variants.Variant) (*variants.Variant, error){u.Add, u.Sub, u.Mul, u.Div, u.Mod, u.Pow, u.And, u.Or, u.Xor, u.Lsh, u.Rsh, u.Equal, u.NotEqual, u.More, u.Less, u.MoreEqual, u.LessEqual} {
		r, err := f(a, b)
		if err != nil {
			vObserve("op"+strconv.Itoa(i), "error: "+err.Error())
		} else {
			vObserve("op"+strconv.Itoa(i), strconv.Itoa(int(r.Type()))+"="+r.String())
		}
	}
	vDone()
}

type selfT struct{ x int }

func recovered(f func()) (msg string) {
	defer func() {
		if r := recover(); r != nil {
			if e, ok := r.(error); ok {
				msg = e.Error()
			} else if s, ok := r.(string); ok {
				msg = "string:" + s
			} else {
				msg = "other"
			}
		}
	}()
	f()
	return "no panic"
}

func unnamedResults(fail bool) (int, string) {
	var r int
	var s string
	defer func() {
		if x := recover(); x != nil {
			r, s = 7, "recovered"
		}
	}()
	r, s = 1, "ok"
	if fail {
		panic("boom")
	}
	return r, s
}

func namedResults(fail bool) (r int, s string) {
	defer func() {
		if x := recover(); x != nil {
			r, s = 7, "recovered"
		}
	}()
	r, s = 1, "ok"
	if fail {
		panic("boom")
	}
	return r, s
}

func H_self_gosemantics() {
	var np *selfT
	var nm map[string]int
	arr := []int{1, 2, 3}
	idx := 5
	zero := 0
	var e1, e2 any = []int{1}, []int{1}
	var ia any = "str"
	vObserve("nil-deref", recovered(func() { _ = np.x }))
	vObserve("nil-map", recovered(func() { nm["a"] = 1 }))
	vObserve("index", recovered(func() { _ = arr[idx] }))
	vObserve("slice", recovered(func() { _ = arr[1:idx] }))
	vObserve("div", recovered(func() { _ = 1 / zero }))
	vObserve("assert", recovered(func() { _ = ia.(int) }))
	vObserve("uncomparable", recovered(func() { _ = e1 == e2 }))
	vObserve("explicit", recovered(func() { panic("mine") }))
	vObserve("none", recovered(func() {}))
	r, s := unnamedResults(true)
	vObserve("unnamed-recover", strconv.Itoa(r)+s)
	r, s = unnamedResults(false)
	vObserve("unnamed-ok", strconv.Itoa(r)+s)
	r, s = namedResults(true)
	vObserve("named-recover", strconv.Itoa(r)+s)
	// append growth (capacity is observable through aliasing)
	caps := ""
	var rs []rune
	var is []int
	var ss []string
	var ps []*selfT
	for i := 0; i < 40; i++ {
		rs = append(rs, 'x')
		is = append(is, i)
		ss = append(ss, "s")
		ps = append(ps, np)
		caps += strconv.Itoa(cap(rs)) + "," + strconv.Itoa(cap(is)) + "," + strconv.Itoa(cap(ss)) + "," + strconv.Itoa(cap(ps)) + ";"
	}
	vObserve("caps", caps)
	rr := []rune("héllo wörld")
	vObserve("runes", strconv.Itoa(len(rr))+"/"+strconv.Itoa(len("héllo wörld"))+"/"+string(rr[1:4])+"/"+strings.ToUpper("straße ǆ ı")+"/"+strings.ToLower("İSTANBUL Ǆ"))
	parent := append([]rune(nil), 'a')
	c1 := append(parent, 'b')
	c2 := append(parent, 'c')
	vObserve("alias", string(c1)+string(c2))
	x := 1 << 62
	vObserve("ints", strconv.Itoa(x*4)+" "+strconv.Itoa(-7/2)+" "+strconv.Itoa(-7%3)+" "+strconv.Itoa(int(int32(int64(x>>31))))+" "+strconv.Itoa(7>>1)+" "+strconv.Itoa(-7>>1)+" "+strconv.Itoa(int(uint8(x>>54+44))))
	f := 2.5
	vObserve("floats", strconv.Itoa(int(f))+" "+strconv.Itoa(int(-f))+" "+strconv.FormatFloat(float64(float32(0.1)), 'g', -1, 64)+" "+strconv.FormatBool(f != f))
	vDone()
}

// H_sym_bytes: byte-level handling of symbolic text: copying a string byte by
// byte (index + WriteByte, []byte round trip, slicing at every byte offset and
// re-joining) gives back the same string.
func H_sym_bytes() {
	n := 1 + vChoice("n", 2)
	rs := make([]rune, n)
	for i := range rs {
		rs[i] = vRune("c")
		vAssume(vOr(vAnd(rs[i] >= 0, rs[i] < 0xD800), vAnd(rs[i] > 0xDFFF, rs[i] <= 0x10FFFF)))
	}
	s := string(rs)
	var b strings.Builder
	for i := 0; i < len(s); i++ {
		b.WriteByte(s[i])
	}
	vAssert(b.String() == s, "bytes:writebyte-copy")
	vAssert(string([]byte(s)) == s, "bytes:slice-roundtrip")
	for i := 0; i <= len(s); i++ {
		vAssert(s[:i]+s[i:] == s, "bytes:cut-and-join")
	}
	var c strings.Builder
	for i := 0; i < len(s); i++ {
		if i%2 == 0 {
			c.WriteByte(s[i])
		} else {
			c.WriteString(s[i : i+1])
		}
	}
	vAssert(c.String() == s, "bytes:mixed-copy")
	vDone()
}

// H_sym_cut: strings.Cut / Index / IndexByte / HasPrefix on symbolic text.
func H_sym_cut() {
	n := vChoice("n", 3)
	rs := make([]rune, n)
	for i := range rs {
		rs[i] = vRune("c")
		vAssume(vOr(vAnd(rs[i] >= 0, rs[i] < 0xD800), vAnd(rs[i] > 0xDFFF, rs[i] <= 0x10FFFF)))
	}
	q := vRune("q")
	vAssume(vOr(vAnd(q >= 0, q < 0xD800), vAnd(q > 0xDFFF, q <= 0x10FFFF)))
	s, sep := string(rs), string(q)
	before, after, found := strings.Cut(s, sep)
	if found {
		vAssert(before+sep+after == s, "cut:rejoins")
		vAssert(strings.Index(before, sep) < 0, "cut:first-occurrence")
		vAssert(strings.Index(s, sep) == len(before), "cut:index-is-byte-offset")
		vAssert(strings.HasPrefix(s[len(before):], sep), "cut:prefix-at-offset")
	} else {
		vAssert(before == s && after == "", "cut:not-found")
		for _, r := range rs {
			vAssert(r != q, "cut:really-absent")
		}
	}
	if len(s) > 0 {
		i := strings.IndexByte(s, s[len(s)-1])
		vAssert(i >= 0 && i < len(s) && s[i] == s[len(s)-1], "indexbyte:finds-a-match")
	}
	vDone()
}

// H_self_time: the time-zone model against the real package time.
func H_self_time() {
	offs := []int{0, 3600, -3600, 5*3600 + 1800, -12 * 3600, 14 * 3600, 1, -1}
	for i, off := range offs {
		z := time.FixedZone("z", off)
		for _, h := range []int{0, 1, 11, 12, 22, 23, 25, -3} {
			d := time.Date(2024, time.February, 29, h, 30, 15, 0, z)
			tag := "time" + strconv.Itoa(i) + "." + strconv.Itoa(h)
			vObserve(tag, strconv.FormatInt(d.Unix(), 10)+" wd="+strconv.Itoa(int(d.Weekday()))+" utc="+strconv.Itoa(int(d.UTC().Weekday()))+
				" in="+strconv.Itoa(int(d.In(time.FixedZone("y", -off)).Weekday()))+" local="+strconv.Itoa(int(d.Local().Weekday())))
		}
	}
	for _, sec := range []int64{0, 1, 86399, 86400, -1, -86400, -86401, 1 << 33, -(1 << 33), 951782400} {
		vObserve("unix"+strconv.FormatInt(sec, 10), strconv.Itoa(int(time.Unix(sec, 0).Weekday()))+" "+strconv.Itoa(int(time.Unix(sec, 0).In(time.FixedZone("a", 7200)).Weekday())))
	}
	vDone()
}

// H_sym_itoa: the decimal text of a symbolic integer parses back to it (through the
// variant conversions the library uses), and parsing the same text twice agrees.
func H_sym_itoa() {
	x := vInt64("x")
	ops := variants.NewTypeUnsafeVariantOperations()
	s, err := ops.Convert(variants.VariantFromLong(x), variants.String)
	vAssert(err == nil && s != nil, "itoa:converts")
	if err != nil || s == nil {
		return
	}
	back, err2 := ops.Convert(s, variants.Long)
	vAssert(err2 == nil && back != nil && back.AsLong() == x, "itoa:parses-back")
	vAssert((s.AsString() == "12") == (x == 12), "itoa:equals-canonical-text")
	vAssert((s.AsString() == "-7") == (x == -7), "itoa:equals-negative-text")
	vAssert(s.AsString() != "012" && s.AsString() != "é" && s.AsString() != "" && s.AsString() != "+3", "itoa:never-a-non-canonical-text")
	y := vInt64("y")
	s2, _ := ops.Convert(variants.VariantFromLong(y), variants.String)
	if s2 != nil {
		vAssert((s.AsString() == s2.AsString()) == (x == y), "itoa:injective")
	}
	again, _ := ops.Convert(variants.VariantFromString(s.AsString()+"0"), variants.Long)
	again2, _ := ops.Convert(variants.VariantFromString(s.AsString()+"0"), variants.Long)
	if again != nil && again2 != nil {
		vAssert(again.AsLong() == again2.AsLong(), "itoa:same-text-same-value")
	}
	vDone()
}
