package tok

import (
	"github.com/pip-services3-gox/pip-services3-expressions-gox/io"
	"github.com/pip-services3-gox/pip-services3-expressions-gox/tokenizers"
	"github.com/pip-services3-gox/pip-services3-expressions-gox/tokenizers/generic"
)

const (
	kNone = iota
	kSymbol
	kWhitespace
	kWord
	kNumber
	kQuote
	kComment
)

type cfgRange struct {
	s, e rune
	kind int
}

// documented configuration of each built-in tokenizer: ordered registrations,
// the last covering one wins (upper ends are capped at U+FFFE by the map).
func documentedConfig(kind int) []cfgRange {
	switch kind {
	case tkGeneric:
		return []cfgRange{{0, 0xff, kSymbol}, {0, ' ', kWhitespace}, {'a', 'z', kWord}, {'A', 'Z', kWord},
			{0xc0, 0xff, kWord}, {0x100, 0xfffe, kWord}, {'-', '-', kNumber}, {'0', '9', kNumber}, {'.', '.', kNumber},
			{'"', '"', kQuote}, {'\'', '\'', kQuote}, {'#', '#', kComment}}
	case tkExpression:
		return []cfgRange{{0, 0xfffe, kSymbol}, {0, ' ', kWhitespace}, {'a', 'z', kWord}, {'A', 'Z', kWord},
			{0xc0, 0xff, kWord}, {'_', '_', kWord}, {'0', '9', kNumber}, {'-', '-', kNumber}, {'.', '.', kNumber},
			{'"', '"', kQuote}, {'\'', '\'', kQuote}, {'/', '/', kComment}}
	case tkCsv:
		return []cfgRange{{0, 0xfffe, kWord}, {'\r', '\r', kSymbol}, {'\n', '\n', kSymbol}, {',', ',', kSymbol}, {'"', '"', kQuote}}
	default:
		return []cfgRange{{0, 0xff, kSymbol}, {0, ' ', kWhitespace}, {'a', 'z', kWord}, {'A', 'Z', kWord}, {'0', '9', kWord},
			{'_', '_', kWord}, {0xc0, 0xff, kWord}, {0x100, 0xfffe, kWord}, {'"', '"', kQuote}, {'\'', '\'', kQuote}}
	}
}

func stateKind(t tokenizers.ITokenizer, st tokenizers.ITokenizerState) int {
	if st == nil {
		return kNone
	}
	if s := t.SymbolState(); s != nil && st == tokenizers.ITokenizerState(s) {
		return kSymbol
	}
	if s := t.WhitespaceState(); s != nil && st == tokenizers.ITokenizerState(s) {
		return kWhitespace
	}
	if s := t.WordState(); s != nil && st == tokenizers.ITokenizerState(s) {
		return kWord
	}
	if s := t.NumberState(); s != nil && st == tokenizers.ITokenizerState(s) {
		return kNumber
	}
	if s := t.QuoteState(); s != nil && st == tokenizers.ITokenizerState(s) {
		return kQuote
	}
	if s := t.CommentState(); s != nil && st == tokenizers.ITokenizerState(s) {
		return kComment
	}
	return 99
}

// H_C17_builtin: every character of a configured range is handed to the configured state.
func H_C17_builtin() {
	kind := vChoice("tokenizer", 4)
	t := newTokenizer(kind)
	ch := vRune("ch")
	vAssume(ch <= 0xFFFE)
	exp := kNone
	for _, r := range documentedConfig(kind) {
		exp = vIteInt(vAnd(ch >= r.s, ch <= r.e), r.kind, exp)
	}
	got := stateKind(t, t.GetCharacterState(ch))
	vAssert(got == exp, "builtin:state-kind")
	vDone()
}

// H_C17_setstate: SetCharacterState histories answer with the latest covering state.
func H_C17_setstate() {
	t := newTokenizer(tkGeneric)
	t.ClearCharacterStates()
	states := []tokenizers.ITokenizerState{nil, t.WordState(), t.SymbolState()}
	K := vParam("K")
	type reg struct {
		s, e rune
		k    int
	}
	var regs []reg
	k := vChoice("k", K+1)
	for i := 0; i < k; i++ {
		var s, e rune
		switch vChoice("shape", 3) {
		case 0: // Latin-1 only
			s, e = 'a', 'z'
		case 1: // spanning the boundary
			s = 0xF0
			e = vRune("e")
			vAssume(vAnd(e >= 0x100, e <= 0xFFFE))
		case 2: // above the boundary
			s = vRune("s")
			e = vRune("e")
			vAssume(vAnd(vAnd(s >= 0x100, s <= e), e <= 0xFFFE))
		}
		ki := vChoice("state", 3)
		t.SetCharacterState(s, e, states[ki])
		regs = append(regs, reg{s, e, ki})
	}
	ch := vRune("ch")
	vAssume(ch <= 0xFFFE)
	exp := 0
	for _, r := range regs {
		exp = vIteInt(vAnd(ch >= r.s, ch <= r.e), r.k, exp)
	}
	st := t.GetCharacterState(ch)
	got := 3
	if st == nil {
		got = 0
	} else if st == states[1] {
		got = 1
	} else if st == states[2] {
		got = 2
	}
	vAssert(got == exp, "setstate:latest-covering")
	vDone()
}

// H_C17_disable: disabling a range of word / whitespace characters really disables it.
func H_C17_disable() {
	var s, e rune
	switch vChoice("shape", 3) {
	case 0: // Latin-1 only
		s, e = 'm', 'q'
	case 1: // spanning the boundary
		s = 0xF0
		e = vRune("e")
		vAssume(vAnd(e >= 0x100, e <= 0xFFFE))
	case 2: // above the boundary
		s = vRune("s")
		e = vRune("e")
		vAssume(vAnd(vAnd(s >= 0x100, s <= e), e <= 0xFFFE))
	}
	ch := vRune("ch")
	vAssume(vAnd(ch >= s, ch <= e))
	if vChoice("which", 2) == 0 {
		ws := generic.NewGenericWordState()
		ws.SetWordChars(s, e, false)
		sc := io.NewStringScanner(string([]rune{'a', ch, 'b'}))
		tok := ws.NextToken(sc, nil)
		vAssert(tok.Value() == "a", "disable:word-stops")
	} else {
		ws := generic.NewGenericWhitespaceState()
		ws.SetWhitespaceChars(0, 0xFFFE, true)
		ws.SetWhitespaceChars(s, e, false)
		sc := io.NewStringScanner(string([]rune{' ', ch, ' '}))
		tok := ws.NextToken(sc, nil)
		vAssert(tok.Value() == " ", "disable:ws-stops")
	}
	vDone()
}
