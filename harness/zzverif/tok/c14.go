package tok

import (
	ctok "github.com/pip-services3-gox/pip-services3-expressions-gox/calculator/tokenizers"
	"github.com/pip-services3-gox/pip-services3-expressions-gox/csv"
	"github.com/pip-services3-gox/pip-services3-expressions-gox/io"
	"github.com/pip-services3-gox/pip-services3-expressions-gox/tokenizers"
	"github.com/pip-services3-gox/pip-services3-expressions-gox/tokenizers/generic"
)

func quoteStateOf(kind int) tokenizers.IQuoteState {
	switch kind {
	case 0:
		return generic.NewGenericQuoteState()
	case 1:
		return ctok.NewExpressionQuoteState()
	}
	return csv.NewCsvQuoteState()
}

func guardedCall(f func()) (panicked bool) {
	defer func() {
		if r := recover(); r != nil {
			panicked = true
		}
	}()
	f()
	return false
}

// usedBefore: the state instance may already have served another quote character
// ("for every quote-handling state ... and every quote character" holds for one
// instance used with several characters in turn).
func usedBefore(st tokenizers.IQuoteState, q0 rune) {
	if vChoice("used-before", 2) == 1 {
		guardedCall(func() { _ = st.DecodeString(st.EncodeString("a", q0), q0) })
	}
}

// H_C14_roundtrip: Decode(Encode(s, q), q) == s for every string and quote character.
func H_C14_roundtrip() {
	st := quoteStateOf(vChoice("state", 3))
	usedBefore(st, vRune("q0"))
	s := string(symInputUpTo())
	q := vRune("q")
	var dec string
	panicked := guardedCall(func() { dec = st.DecodeString(st.EncodeString(s, q), q) })
	vAssert(!panicked, "quote:roundtrip-never-fails")
	if panicked {
		return
	}
	vAssert(dec == s, "quote:decode-inverts-encode")
	vDone()
}

// H_C14_total: decoding never fails on any text.
func H_C14_total() {
	st := quoteStateOf(vChoice("state", 3))
	t := string(symInputUpTo())
	q := vRune("q")
	panicked := guardedCall(func() { _ = st.DecodeString(t, q) })
	vAssert(!panicked, "quote:decode-total")
	vDone()
}

// H_C14_stream: the encoded form placed in a stream is read back as exactly one token.
func H_C14_stream() {
	var t fullTokenizer
	var quotes []rune
	if vChoice("tokenizer", 2) == 0 {
		t = newTokenizer(tkExpression)
		quotes = []rune{'\'', '"'}
	} else {
		ct := csv.NewCsvTokenizer()
		ct.SetQuoteSymbols([]rune{'"', '|', '«'})
		t = ct
		quotes = []rune{'"', '|', '«'}
	}
	q := quotes[vChoice("q", len(quotes))]
	usedBefore(t.QuoteState(), quotes[vChoice("q0", len(quotes))])
	s := string(symInputUpTo())
	enc := t.QuoteState().EncodeString(s, q)
	input := []rune(enc)
	hasTail := vChoice("tail", 2) == 1
	var tail rune
	if hasTail {
		tail = vRune("tail")
		vAssume(tail != q)
		input = append(input, tail)
	}
	sc := io.NewStringScanner(string(input))
	vAssert(t.GetCharacterState(q) == tokenizers.ITokenizerState(t.QuoteState()), "quote:quote-char-maps-to-quote-state")
	tok := t.QuoteState().NextToken(sc, t)
	vAssert(tok != nil, "quote:stream-token")
	if tok == nil {
		return
	}
	vAssert(tok.Value() == enc, "quote:stream-one-token-is-the-encoded-text")
	if tok.Value() != enc {
		return
	}
	dec := t.QuoteState().DecodeString(tok.Value(), q)
	vAssert(dec == s, "quote:stream-decodes-to-original")
	next := sc.Peek()
	if hasTail {
		vAssert(next == tail, "quote:stream-scanner-at-tail")
	} else {
		vAssert(next == -1, "quote:stream-scanner-at-end")
	}
	vDone()
}
