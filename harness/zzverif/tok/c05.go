package tok

import (
	"github.com/pip-services3-gox/pip-services3-expressions-gox/io"
	"github.com/pip-services3-gox/pip-services3-expressions-gox/tokenizers"
)

// C05: reused instances give history-independent results.

func parserOptions(t fullTokenizer) {
	t.SetSkipWhitespaces(true)
	t.SetSkipComments(true)
	t.SetSkipEof(true)
	t.SetDecodeStrings(true)
}

func sameTokens(a, b []*tokenizers.Token, tag string) {
	vAssert(len(a) == len(b), tag+":count")
	if len(a) != len(b) {
		return
	}
	for i := range a {
		vAssert(a[i].Type() == b[i].Type(), tag+":type")
		vAssert(a[i].Value() == b[i].Value(), tag+":value")
		vAssert(a[i].Line() == b[i].Line(), tag+":line")
		vAssert(a[i].Column() == b[i].Column(), tag+":column")
	}
}

// H_C05_tokenizer: input A (completely tokenized or aborted after j tokens) then input B on
// one instance, compared with B on a fresh instance.
func H_C05_tokenizer() {
	kind := tokKind()
	withOpts := vParam("OPT") == 1
	t := newTokenizer(kind)
	fresh := newTokenizer(kind)
	if withOpts {
		parserOptions(t)
		parserOptions(fresh)
	}
	a := symInput(vParam("NA"))
	b := symInput(vParam("NB"))
	if vChoice("abort", 2) == 0 {
		t.TokenizeBuffer(string(a))
	} else {
		t.SetReader(io.NewStringScanner(string(a)))
		j := vChoice("tokens-read", 3)
		for i := 0; i < j; i++ {
			t.NextToken()
		}
		if vChoice("peeked", 2) == 1 {
			t.HasNextToken()
		}
	}
	got := t.TokenizeBuffer(string(b))
	want := fresh.TokenizeBuffer(string(b))
	sameTokens(got, want, "reuse")
	vDone()
}

// H_C05_hasnext: any interleaving of has-next queries with next-token calls yields the
// tokens of TokenizeBuffer.
func H_C05_hasnext() {
	kind := tokKind()
	withOpts := vParam("OPT") == 1
	t := newTokenizer(kind)
	fresh := newTokenizer(kind)
	if withOpts {
		parserOptions(t)
		parserOptions(fresh)
	}
	c := symInputUpTo()
	want := fresh.TokenizeBuffer(string(c))
	t.SetReader(io.NewStringScanner(string(c)))
	var got []*tokenizers.Token
	for i := 0; i <= len(want)+1; i++ {
		h := vChoice("has-next-calls", 3)
		has := true
		for k := 0; k < h; k++ {
			has = t.HasNextToken()
		}
		tok := t.NextToken()
		if h > 0 {
			vAssert(has == (tok != nil), "hasnext:agrees-with-next")
		}
		if tok == nil {
			break
		}
		got = append(got, tok)
	}
	sameTokens(got, want, "hasnext")
	vDone()
}
