package tok

import "github.com/pip-services3-gox/pip-services3-expressions-gox/tokenizers"

type optSet struct {
	skipUnknown, skipWhitespaces, skipComments, skipEof, merge, unify, decode bool
}

func symOptions() optSet {
	return optSet{vBool("o.skipUnknown"), vBool("o.skipWhitespaces"), vBool("o.skipComments"), vBool("o.skipEof"),
		vBool("o.merge"), vBool("o.unify"), vBool("o.decode")}
}

func applyOptions(t fullTokenizer, o optSet) {
	t.SetSkipUnknown(o.skipUnknown)
	t.SetSkipWhitespaces(o.skipWhitespaces)
	t.SetSkipComments(o.skipComments)
	t.SetSkipEof(o.skipEof)
	t.SetMergeWhitespaces(o.merge)
	t.SetUnifyNumbers(o.unify)
	t.SetDecodeStrings(o.decode)
}

func isQuoteToken(t fullTokenizer, tok *tokenizers.Token) bool {
	rs := []rune(tok.Value())
	if len(rs) == 0 || tok.Type() == tokenizers.Special {
		return false // template text is read by the mustache special state, not by the quote state
	}
	st := t.GetCharacterState(rs[0])
	if st == nil {
		return false
	}
	_, ok := st.(tokenizers.IQuoteState)
	return ok
}

// checkPositions: every token of the option-free stream reports the line/column of its first character.
func checkPositions(c []rune, toks []*tokenizers.Token) {
	off := 0
	for _, tok := range toks {
		line, col := refPeekLC(c, off)
		vAssert(tok.Line() == line, "pos:line-of-first-char")
		vAssert(tok.Column() == col, "pos:column-of-first-char")
		off += len([]rune(tok.Value()))
	}
}

// H_C12_positions: option-free streams, all four tokenizers.
func H_C12_positions() {
	kind := tokKind()
	c := symInputUpTo()
	t := newTokenizer(kind)
	toks := t.TokenizeBuffer(string(c))
	checkPositions(c, toks)
	vDone()
}

// H_C15_options: the stream under any option set is the option-free stream with
// whole tokens removed or rewritten. MODE=15 asserts the option statements, MODE=12
// asserts that every surviving token keeps the position of its option-free counterpart.
func H_C15_options() {
	mode := vParam("MODE")
	kind := tokKind()
	c := symInputUpTo()
	t0 := newTokenizer(kind)
	ref := t0.TokenizeBuffer(string(c))
	o := symOptions()
	t := newTokenizer(kind)
	applyOptions(t, o)
	got := t.TokenizeBuffer(string(c))

	j := 0
	for _, r := range ref {
		expType := r.Type()
		if o.unify && (expType == tokenizers.Integer || expType == tokenizers.Float || expType == tokenizers.HexDecimal) {
			expType = tokenizers.Number
		}
		expValue := r.Value()
		if r.Type() == tokenizers.Whitespace && o.merge {
			expValue = " "
		} else if o.decode && isQuoteToken(t, r) {
			expValue = t.QuoteState().DecodeString(r.Value(), []rune(r.Value())[0])
		}
		if j < len(got) && got[j].Type() == expType && got[j].Value() == expValue {
			if mode == 12 {
				vAssert(got[j].Line() == r.Line(), "pos:own-line-after-skips")
				vAssert(got[j].Column() == r.Column(), "pos:own-column-after-skips")
			}
			j++
			continue
		}
		// not present: it must be a whole token the enabled options allow to drop
		deletable := false
		switch r.Type() {
		case tokenizers.Unknown:
			deletable = o.skipUnknown
		case tokenizers.Comment:
			deletable = o.skipComments
		case tokenizers.Eof:
			deletable = o.skipEof
		case tokenizers.Whitespace:
			deletable = o.skipWhitespaces
		}
		if mode == 15 {
			vAssert(deletable, "opt:only-whole-tokens-dropped-or-rewritten")
		}
		if !deletable {
			return
		}
	}
	if mode == 15 {
		vAssert(j == len(got), "opt:no-invented-tokens")
		prevWS := false
		for _, g := range got {
			ty := g.Type()
			vAssert(!(ty == tokenizers.Unknown && o.skipUnknown), "opt:no-unknown")
			vAssert(!(ty == tokenizers.Comment && o.skipComments), "opt:no-comment")
			vAssert(!(ty == tokenizers.Eof && o.skipEof), "opt:no-eof")
			isWS := ty == tokenizers.Whitespace
			vAssert(!(isWS && prevWS && o.skipWhitespaces), "opt:no-adjacent-whitespace")
			if isWS && o.merge {
				vAssert(g.Value() == " ", "opt:whitespace-is-single-space")
			}
			if o.unify {
				vAssert(ty != tokenizers.Integer && ty != tokenizers.Float && ty != tokenizers.HexDecimal, "opt:numbers-unified")
			}
			prevWS = isWS
		}
	}
	vDone()
}
