package tok

import "github.com/pip-services3-gox/pip-services3-expressions-gox/tokenizers"

type optSet struct {
	skipUnknown, skipWhitespaces, skipComments, skipEof, merge, unify, decode bool
}

func symOptions() optSet {
	return optSet{vBool("o.skipUnknown"), vBool("o.skipWhitespaces"), vBool("o.skipComments"), vBool("o.skipEof"),
		vBool("o.merge"), vBool("o.unify"), vBool("o.decode")}
}

func applyOptions(t fullTokenizer, o optSet) {
	t.SetSkipUnknown(o.skipUnknown)
	t.SetSkipWhitespaces(o.skipWhitespaces)
	t.SetSkipComments(o.skipComments)
	t.SetSkipEof(o.skipEof)
	t.SetMergeWhitespaces(o.merge)
	t.SetUnifyNumbers(o.unify)
	t.SetDecodeStrings(o.decode)
}

func isQuoteToken(t fullTokenizer, tok *tokenizers.Token) bool {
	rs := []rune(tok.Value())
	if len(rs) == 0 || tok.Type() == tokenizers.Special {
		return false // template text is read by the mustache special state, not by the quote state
	}
	st := t.GetCharacterState(rs[0])
	if st == nil {
		return false
	}
	_, ok := st.(tokenizers.IQuoteState)
	return ok
}

// checkPositions: every token of the option-free stream reports the line/column of its first character.
func checkPositions(c []rune, toks []*tokenizers.Token) {
	off := 0
	for _, tok := range toks {
		line, col := refPeekLC(c, off)
		vAssert(tok.Line() == line, "pos:line-of-first-char")
		vAssert(tok.Column() == col, "pos:column-of-first-char")
		off += len([]rune(tok.Value()))
	}
}

// H_C12_positions: option-free streams, all four tokenizers.
func H_C12_positions() {
	kind := tokKind()
	c := symInputUpTo()
	t := newTokenizer(kind)
	toks := t.TokenizeBuffer(string(c))
	checkPositions(c, toks)
	vDone()
}

// H_C15_options: the stream under any option set is the option-free stream with
// whole tokens removed or rewritten. MODE=15 asserts the option statements, MODE=12
// asserts that every surviving token keeps the position of its option-free counterpart.
func H_C15_options() {
	kind := tokKind()
	c := symInputUpTo()
	c15Check(kind, c, vParam("MODE"))
	vDone()
}

// H_C15_lexemes: the same statements on inputs built from K lexemes of the tokenizer's
// classes (whitespace runs, comments, characters without a state, words, numbers, strings,
// symbols), so that shapes like "a /*c*/ b" are inside the bound.
func H_C15_lexemes() {
	kind := vParam("TOK") // generic or expression
	K := vParam("K")
	var input []rune
	prevClass := -1
	for i := 0; i < K; i++ {
		class := vChoice("class", 7)
		var text []rune
		switch class {
		case 0: // whitespace
			w := vRune("ws")
			vAssume(w <= ' ')
			text = []rune{w}
			if prevClass == 0 {
				vAssume(false)
			}
		case 1: // comment
			x := vRune("cm")
			if kind == tkExpression {
				text = []rune{'/', '*', x, '*', '/'} // any one-character body, a star or a slash included
			} else {
				vAssume(vAnd(x != '\n', x != '\r'))
				text = []rune{'#', x, '\n'}
			}
		case 2: // a character no state is configured for
			u := vRune("u")
			vAssume(u > 0xFFFE)
			text = []rune{u}
		case 3:
			text = []rune{'a'}
		case 4:
			if kind == tkExpression {
				// integer, decimal and scientific spellings
				text = [][]rune{{'1'}, {'1', '.', '5'}, {'1', 'e', '5'}, {'2', '.', '5', 'E', '-', '3'}}[vChoice("num", 4)]
			} else {
				// generically a sign is part of the number
				text = [][]rune{{'1'}, {'1', '.', '5'}, {'-', '2'}}[vChoice("num", 3)]
			}
		case 5:
			x := vRune("q")
			vAssume(x != '\'')
			text = []rune{'\'', x, '\''}
		case 6:
			text = []rune{'<', '='}
		}
		// neighbours that would fuse are separated by a space
		if (prevClass == 3 || prevClass == 4) && (class == 3 || class == 4) {
			input = append(input, ' ')
		}
		if prevClass == 6 && (class == 6 || class == 1 || class == 4) {
			input = append(input, ' ')
		}
		if prevClass == 5 && class == 5 {
			input = append(input, ' ')
		}
		input = append(input, text...)
		prevClass = class
	}
	c15Check(kind, input, vParam("MODE"))
	vDone()
}

func c15Check(kind int, c []rune, mode int) {
	t0 := newTokenizer(kind)
	ref := t0.TokenizeBuffer(string(c))
	o := symOptions()
	t := newTokenizer(kind)
	applyOptions(t, o)
	got := t.TokenizeBuffer(string(c))

	j := 0
	for _, r := range ref {
		expType := r.Type()
		if o.unify && (expType == tokenizers.Integer || expType == tokenizers.Float || expType == tokenizers.HexDecimal) {
			expType = tokenizers.Number
		}
		expValue := r.Value()
		if r.Type() == tokenizers.Whitespace && o.merge {
			expValue = " "
		} else if o.decode && isQuoteToken(t, r) {
			expValue = t.QuoteState().DecodeString(r.Value(), []rune(r.Value())[0])
		}
		if j < len(got) && got[j].Type() == expType && got[j].Value() == expValue {
			if mode == 12 {
				vAssert(got[j].Line() == r.Line(), "pos:own-line-after-skips")
				vAssert(got[j].Column() == r.Column(), "pos:own-column-after-skips")
			}
			j++
			continue
		}
		// not present: it must be a whole token the enabled options allow to drop
		deletable := false
		switch r.Type() {
		case tokenizers.Unknown:
			deletable = o.skipUnknown
		case tokenizers.Comment:
			deletable = o.skipComments
		case tokenizers.Eof:
			deletable = o.skipEof
		case tokenizers.Whitespace:
			deletable = o.skipWhitespaces
		}
		if mode == 15 {
			vAssert(deletable, "opt:only-whole-tokens-dropped-or-rewritten")
		}
		if !deletable {
			return
		}
	}
	if mode == 15 {
		vAssert(j == len(got), "opt:no-invented-tokens")
		prevWS := false
		for _, g := range got {
			ty := g.Type()
			vAssert(!(ty == tokenizers.Unknown && o.skipUnknown), "opt:no-unknown")
			vAssert(!(ty == tokenizers.Comment && o.skipComments), "opt:no-comment")
			vAssert(!(ty == tokenizers.Eof && o.skipEof), "opt:no-eof")
			isWS := ty == tokenizers.Whitespace
			vAssert(!(isWS && prevWS && o.skipWhitespaces), "opt:no-adjacent-whitespace")
			if isWS && o.merge {
				vAssert(g.Value() == " ", "opt:whitespace-is-single-space")
			}
			if o.unify {
				vAssert(ty != tokenizers.Integer && ty != tokenizers.Float && ty != tokenizers.HexDecimal, "opt:numbers-unified")
			}
			prevWS = isWS
		}
	}
}
