package tok

import "github.com/pip-services3-gox/pip-services3-expressions-gox/tokenizers"

// tokKind: parameter TOK selects one tokenizer (0..3) or all four (-1).
func tokKind() int {
	k := vParam("TOK")
	if k < 0 {
		k = vChoice("tokenizer", 4)
	}
	return k
}

func symInputUpTo() []rune {
	N := vParam("N")
	lo := vParam("NMIN")
	n := lo + vChoice("n", N+1-lo)
	return symInput(n)
}

// H_C04_lossless: with every option off, token values concatenate to the input.
func H_C04_lossless() {
	kind := tokKind()
	c := symInputUpTo()
	t := newTokenizer(kind)
	toks := t.TokenizeBuffer(string(c))
	vAssert(len(toks) >= 1, "lossless:has-eof")
	if len(toks) == 0 {
		return
	}
	s := ""
	for i, tok := range toks {
		s += tok.Value()
		if i < len(toks)-1 {
			vAssert(tok.Value() != "", "lossless:token-nonempty")
			vAssert(tok.Type() != tokenizers.Eof, "lossless:eof-only-last")
		}
	}
	last := toks[len(toks)-1]
	vAssert(last.Type() == tokenizers.Eof, "lossless:last-is-eof")
	vAssert(last.Value() == "", "lossless:eof-empty")
	vAssert(s == string(c), "lossless:concat")
	vDone()
}

// H_C04_symbols: buffers made of K registered multi-character symbols (same instance reads them
// all), optionally separated by a letter, a space or '=': token values still concatenate to the input.
func H_C04_symbols() {
	kind := tokKind()
	var pool []string
	switch kind {
	case tkGeneric:
		pool = []string{"<>", "<=", ">="}
	case tkExpression:
		pool = []string{"<=", ">=", "<>", "!=", ">>", "<<"}
	case tkCsv, tkCsvWide:
		pool = []string{"\r\n", "\n\r", "\n", "\r"}
	default:
		pool = []string{"{{", "}}", "{{{", "}}}"}
	}
	K := vParam("K")
	var input []rune
	for i := 0; i < K; i++ {
		input = append(input, []rune(pool[vChoice("symbol", len(pool))])...)
		switch vChoice("sep", 4) {
		case 1:
			input = append(input, 'a')
		case 2:
			input = append(input, ' ')
		case 3:
			input = append(input, '=')
		}
	}
	t := newTokenizer(kind)
	toks := t.TokenizeBuffer(string(input))
	s := ""
	for i, tok := range toks {
		s += tok.Value()
		if i < len(toks)-1 {
			vAssert(tok.Value() != "", "symbols:token-nonempty")
		}
	}
	vAssert(s == string(input), "symbols:concat")
	vDone()
}
