package tok

import "github.com/pip-services3-gox/pip-services3-expressions-gox/tokenizers"

// tokKind: parameter TOK selects one tokenizer (0..3) or all four (-1).
func tokKind() int {
	k := vParam("TOK")
	if k < 0 {
		k = vChoice("tokenizer", 4)
	}
	return k
}

func symInputUpTo() []rune {
	N := vParam("N")
	lo := vParam("NMIN")
	n := lo + vChoice("n", N+1-lo)
	return symInput(n)
}

// H_C04_lossless: with every option off, token values concatenate to the input.
func H_C04_lossless() {
	kind := tokKind()
	c := symInputUpTo()
	t := newTokenizer(kind)
	toks := t.TokenizeBuffer(string(c))
	vAssert(len(toks) >= 1, "lossless:has-eof")
	if len(toks) == 0 {
		return
	}
	s := ""
	for i, tok := range toks {
		s += tok.Value()
		if i < len(toks)-1 {
			vAssert(tok.Value() != "", "lossless:token-nonempty")
			vAssert(tok.Type() != tokenizers.Eof, "lossless:eof-only-last")
		}
	}
	last := toks[len(toks)-1]
	vAssert(last.Type() == tokenizers.Eof, "lossless:last-is-eof")
	vAssert(last.Value() == "", "lossless:eof-empty")
	vAssert(s == string(c), "lossless:concat")
	vDone()
}
