package tok

import (
	ctok "github.com/pip-services3-gox/pip-services3-expressions-gox/calculator/tokenizers"
	"github.com/pip-services3-gox/pip-services3-expressions-gox/csv"
	mtok "github.com/pip-services3-gox/pip-services3-expressions-gox/mustache/tokenizers"
	"github.com/pip-services3-gox/pip-services3-expressions-gox/tokenizers"
	"github.com/pip-services3-gox/pip-services3-expressions-gox/tokenizers/generic"
)

const (
	tkGeneric = iota
	tkExpression
	tkCsv
	tkMustache
	tkCsvWide // CSV tokenizer configured with a non-Latin separator and quote symbol (TOK=4 only)
)

type fullTokenizer interface {
	tokenizers.ITokenizer
	GetCharacterState(symbol rune) tokenizers.ITokenizerState
	SetCharacterState(fromSymbol rune, toSymbol rune, state tokenizers.ITokenizerState)
	ClearCharacterStates()
}

// newTokenizer builds one of the four built-in tokenizers with every option off.
func newTokenizer(kind int) fullTokenizer {
	var t fullTokenizer
	switch kind {
	case tkGeneric:
		t = generic.NewGenericTokenizer()
	case tkExpression:
		t = ctok.NewExpressionTokenizer()
	case tkCsv:
		t = csv.NewCsvTokenizer()
	case tkCsvWide:
		ct := csv.NewCsvTokenizer()
		ct.SetFieldSeparators([]rune{'\uff1b', '\t'})
		ct.SetQuoteSymbols([]rune{'\u00ab', '\u300c'})
		t = ct
	default:
		t = mtok.NewMustacheTokenizer()
	}
	t.SetSkipUnknown(false)
	t.SetSkipWhitespaces(false)
	t.SetSkipComments(false)
	t.SetSkipEof(false)
	t.SetMergeWhitespaces(false)
	t.SetUnifyNumbers(false)
	t.SetDecodeStrings(false)
	return t
}

// symInput returns a symbolic input of exactly n runes.
func symInput(n int) []rune {
	c := make([]rune, n)
	for i := range c {
		c[i] = vRune("c")
	}
	return c
}

// refLC: line/column after a forward scan up to and including position p
// (LF always ends a line, CR unless adjacent to LF; CR/LF do not advance the column).
func refLC(c []rune, p int) (int, int) {
	line, col := 1, 0
	for i := 0; i <= p && i < len(c); i++ {
		ch := c[i]
		before := rune(-1)
		if i > 0 {
			before = c[i-1]
		}
		after := rune(-1)
		if i+1 < len(c) {
			after = c[i+1]
		}
		isLF := ch == '\n'
		isCR := ch == '\r'
		brk := vOr(isLF, vAnd(isCR, vAnd(before != '\n', after != '\n')))
		line = vIteInt(brk, line+1, line)
		col = vIteInt(brk, 0, col)
		col = vIteInt(vOr(isLF, isCR), col, col+1)
	}
	return line, col
}

// refPeekLC: line/column reported for the character at index p (first
// character of a token): those of a forward scan including p, except that
// the virtual end-of-input slot sits one column past the last character.
func refPeekLC(c []rune, p int) (int, int) {
	if p >= len(c) {
		line, col := refLC(c, len(c)-1)
		return line, col + 1
	}
	return refLC(c, p)
}
