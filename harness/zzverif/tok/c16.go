package tok

import (
	"github.com/pip-services3-gox/pip-services3-expressions-gox/io"
	"github.com/pip-services3-gox/pip-services3-expressions-gox/tokenizers"
	"github.com/pip-services3-gox/pip-services3-expressions-gox/tokenizers/generic"
)

var c16Alphabet = []rune{'<', '=', 'ж'}

type c16Sym struct {
	text []rune
	typ  int
}

// c16Config: an ordered set of up to M distinct symbols of length 1..3 over the alphabet,
// each registered with its own token type.
func c16Config() []c16Sym {
	M := vParam("M")
	m := 1 + vChoice("m", M)
	var syms []c16Sym
	for i := 0; i < m; i++ {
		l := 2
		if vParam("SHAPE") == 0 {
			l = 1 + vChoice("len", 3)
		}
		txt := make([]rune, l)
		for j := range txt {
			txt[j] = c16Alphabet[vChoice("ch", len(c16Alphabet))]
		}
		if vParam("SHARE") == 1 && i > 0 {
			vAssume(txt[0] == syms[0].text[0])
		}
		for _, s := range syms {
			vAssume(string(s.text) != string(txt))
		}
		syms = append(syms, c16Sym{txt, 100 + i})
	}
	return syms
}

func c16Register(st *generic.GenericSymbolState, syms []c16Sym) {
	for _, s := range syms {
		st.Add(string(s.text), s.typ)
	}
}

// c16Oracle: length and type of the longest registered symbol that is a prefix of in
// (0 / Symbol when none is: the single next character).
func c16Oracle(syms []c16Sym, in []rune) (int, int) {
	bestLen, bestType := 0, tokenizers.Symbol
	for _, s := range syms {
		if len(s.text) > len(in) {
			continue
		}
		match := true
		for j, r := range s.text {
			match = vAnd(match, in[j] == r)
		}
		better := vAnd(match, len(s.text) > bestLen)
		bestType = vIteInt(better, s.typ, bestType)
		bestLen = vIteInt(better, len(s.text), bestLen)
	}
	return bestLen, bestType
}

// c16Input: symbolic input; line breaks are excluded (the scanner's line counting
// would fork three ways per character and is covered by C11/C12).
func c16Input(n int) []rune {
	in := symInput(n)
	for _, r := range in {
		vAssume(vAnd(r != '\n', r != '\r'))
	}
	return in
}

// c16Read performs one NextToken over in and checks it against the oracle.
func c16Read(st *generic.GenericSymbolState, syms []c16Sym, in []rune, tag string) {
	sc := io.NewStringScanner(string(in))
	tok := st.NextToken(sc, nil)
	vAssert(tok != nil, tag+":token")
	if tok == nil {
		return
	}
	expLen, expType := c16Oracle(syms, in)
	got := []rune(tok.Value())
	// a single character when no registered symbol matches
	expLen1 := vIteInt(expLen == 0, 1, expLen)
	vAssert(len(got) == expLen1, tag+":longest-registered-length")
	if len(got) > len(in) {
		return
	}
	same := true
	for i := range got {
		same = vAnd(same, got[i] == in[i])
	}
	vAssert(same, tag+":text-is-input-prefix")
	// a first character that starts a registered symbol is an ordinary Symbol unless registered itself
	vAssert(tok.Type() == expType, tag+":own-type")
	// consumed exactly that many characters
	rest := 0
	for sc.Read() != -1 {
		rest++
	}
	vAssert(rest == len(in)-len(got), tag+":consumed-exactly")
}

// H_C16_longest: one read on a fresh table.
func H_C16_longest() {
	syms := c16Config()
	st := generic.NewGenericSymbolState()
	c16Register(st, syms)
	N := vParam("N")
	in := c16Input(1 + vChoice("n", N))
	c16Read(st, syms, in, "sym")
	vDone()
}

// H_C16_again: R consecutive reads on one table, each over its own input
// (a cached symbol text must not be overwritten by a sibling).
func H_C16_again() {
	syms := c16Config()
	st := generic.NewGenericSymbolState()
	c16Register(st, syms)
	R := vParam("R")
	N := vParam("N")
	for r := 0; r < R; r++ {
		in := c16Input(N)
		c16Read(st, syms, in, "again")
	}
	vDone()
}

// H_C16_monotone: registering a further symbol never alters what is reported for existing ones.
func H_C16_monotone() {
	syms := c16Config()
	vAssume(len(syms) >= 2)
	small := generic.NewGenericSymbolState()
	c16Register(small, syms[:len(syms)-1])
	big := generic.NewGenericSymbolState()
	c16Register(big, syms)
	N := vParam("N")
	in := c16Input(1 + vChoice("n", N))
	l1, t1 := c16Oracle(syms[:len(syms)-1], in)
	l2, t2 := c16Oracle(syms, in)
	vAssume(vAnd(l1 == l2, t1 == t2)) // the answer is an existing symbol in both tables
	a := small.NextToken(io.NewStringScanner(string(in)), nil)
	b := big.NextToken(io.NewStringScanner(string(in)), nil)
	vAssert(a.Value() == b.Value(), "monotone:text")
	vAssert(a.Type() == b.Type(), "monotone:type")
	vDone()
}
