package tok

import (
	"strings"

	"github.com/pip-services3-gox/pip-services3-expressions-gox/tokenizers"
)

// C13: lexeme sequences tokenize back to themselves with the right classes.

const (
	lxIdent = iota
	lxKeyword
	lxInteger
	lxDecimal
	lxScientific
	lxQuoted
	lxComment
	lxWhitespace
	lxMultiSymbol
	lxSymbol
	lxCount
)

type lexeme struct {
	class int
	text  []rune
	typ   int
}

var c13Keywords = []string{"AND", "OR", "NOT", "XOR", "LIKE", "IS", "IN", "NULL", "TRUE", "FALSE"}

func inRange(r, lo, hi rune) bool { return vAnd(r >= lo, r <= hi) }

func digit(tag string) rune {
	d := vRune(tag)
	vAssume(inRange(d, '0', '9'))
	return d
}

func digits(tag string) []rune {
	n := 1 + vChoice(tag+".n", 2)
	out := make([]rune, n)
	for i := range out {
		out[i] = digit(tag)
	}
	return out
}

// wordStart / wordChar: the ranges the tokenizer's constructor maps to the word state.
func wordStart(kind int, r rune) bool {
	base := vOr(vOr(inRange(r, 'a', 'z'), inRange(r, 'A', 'Z')), inRange(r, 0xc0, 0xff))
	if kind == tkGeneric {
		return vOr(base, inRange(r, 0x100, 0xfffe))
	}
	return vOr(base, r == '_')
}

func wordChar(kind int, r rune) bool {
	base := vOr(vOr(vOr(inRange(r, 'a', 'z'), inRange(r, 'A', 'Z')), inRange(r, '0', '9')), vOr(r == '_', vOr(inRange(r, 0xc0, 0xff), inRange(r, 0x100, 0xfffe))))
	if kind == tkGeneric {
		return vOr(base, r == '-')
	}
	return base
}

func isKeywordText(s string) bool {
	up := strings.ToUpper(s)
	res := false
	for _, k := range c13Keywords {
		res = vOr(res, up == k)
	}
	return res
}

func makeLexeme(kind int, last bool) lexeme {
	class := vChoice("class", lxCount)
	switch class {
	case lxIdent:
		n := 1 + vChoice("id.n", 3)
		txt := make([]rune, n)
		txt[0] = vRune("id")
		vAssume(wordStart(kind, txt[0]))
		for i := 1; i < n; i++ {
			txt[i] = vRune("id")
			vAssume(wordChar(kind, txt[i]))
		}
		if kind == tkExpression {
			vAssume(!isKeywordText(string(txt)))
		}
		return lexeme{class, txt, tokenizers.Word}
	case lxKeyword:
		if kind != tkExpression {
			vAssume(false)
		}
		kw := []rune(c13Keywords[vChoice("kw", len(c13Keywords))])
		txt := make([]rune, len(kw))
		for i, r := range kw {
			txt[i] = vIteRune(vBool("kw.lower"), r+32, r)
		}
		return lexeme{class, txt, tokenizers.Keyword}
	case lxInteger:
		return lexeme{class, digits("int"), tokenizers.Integer}
	case lxDecimal:
		txt := append(digits("dec.a"), '.')
		txt = append(txt, digits("dec.b")...)
		return lexeme{class, txt, tokenizers.Float}
	case lxScientific:
		if kind != tkExpression {
			vAssume(false)
		}
		txt := digits("sci.m")
		if vChoice("sci.frac", 2) == 1 {
			txt = append(txt, '.')
			txt = append(txt, digits("sci.f")...)
		}
		txt = append(txt, vIteRune(vBool("sci.E"), 'E', 'e'))
		switch vChoice("sci.sign", 3) {
		case 1:
			txt = append(txt, '+')
		case 2:
			txt = append(txt, '-')
		}
		txt = append(txt, digits("sci.e")...)
		return lexeme{class, txt, tokenizers.Float}
	case lxQuoted:
		q := []rune{'\'', '"'}[vChoice("q", 2)]
		n := vChoice("str.n", 3)
		txt := []rune{q}
		for i := 0; i < n; i++ {
			r := vRune("str")
			if kind == tkExpression {
				// an embedded quote is written doubled
				if r == q {
					txt = append(txt, q)
				}
			} else {
				vAssume(r != q)
			}
			txt = append(txt, r)
		}
		txt = append(txt, q)
		typ := tokenizers.Quoted
		if kind == tkExpression && q == '"' {
			typ = tokenizers.Word // double-quoted text is a quoted identifier in expressions
		}
		return lexeme{class, txt, typ}
	case lxComment:
		if kind == tkExpression {
			txt := []rune{'/', '*'}
			n := vChoice("cm.n", 3)
			for i := 0; i < n; i++ {
				r := vRune("cm")
				// any body (stars and slashes included) that does not contain the closing "*/"
				if i > 0 {
					vAssume(!vAnd(txt[len(txt)-1] == '*', r == '/'))
				}
				txt = append(txt, r)
			}
			return lexeme{class, append(txt, '*', '/'), tokenizers.Comment}
		}
		// generic: '#' up to the end of the line; only as the last lexeme
		if !last {
			vAssume(false)
		}
		txt := []rune{'#'}
		n := vChoice("cm.n", 3)
		for i := 0; i < n; i++ {
			r := vRune("cm")
			vAssume(vAnd(r != '\n', r != '\r'))
			txt = append(txt, r)
		}
		return lexeme{class, txt, tokenizers.Comment}
	case lxWhitespace:
		n := 1 + vChoice("ws.n", 2)
		txt := make([]rune, n)
		for i := range txt {
			txt[i] = vRune("ws")
			vAssume(txt[i] <= ' ')
		}
		return lexeme{class, txt, tokenizers.Whitespace}
	case lxMultiSymbol:
		var pool []string
		if kind == tkGeneric {
			pool = []string{"<>", "<=", ">="}
		} else {
			pool = []string{"<=", ">=", "<>", "!=", ">>", "<<"}
		}
		return lexeme{class, []rune(pool[vChoice("ms", len(pool))]), tokenizers.Symbol}
	default:
		pool := []rune{'+', '*', '(', ')', '=', '<', '>', '!', '%', '^', ',', '[', ']', ';', '-'}
		i := vChoice("sym", len(pool)+1)
		if i < len(pool) {
			if pool[i] == '-' && kind == tkGeneric {
				vAssume(false) // a sign starts a number generically
			}
			return lexeme{class, []rune{pool[i]}, tokenizers.Symbol}
		}
		// any other character handed to the symbol state
		r := vRune("sym.r")
		if kind == tkExpression {
			vAssume(inRange(r, 0x100, 0xfffe))
		} else {
			vAssume(vOr(inRange(r, 0x7b, 0xbf), inRange(r, ':', '@')))
			vAssume(vAnd(vAnd(r != '<', r != '>'), vAnd(r != '=', r != '\u0085')))
		}
		return lexeme{class, []rune{r}, tokenizers.Symbol}
	}
}

func wordLike(c int) bool {
	return c == lxIdent || c == lxKeyword || c == lxInteger || c == lxDecimal || c == lxScientific
}

// needSpace: the declared merge relation between neighbours.
func needSpace(a, b lexeme) bool {
	switch {
	case wordLike(a.class) && wordLike(b.class):
		return true
	case (a.class == lxSymbol || a.class == lxMultiSymbol) && (b.class == lxSymbol || b.class == lxMultiSymbol):
		return true
	case (a.class == lxSymbol || a.class == lxMultiSymbol) && (b.class == lxComment || b.class == lxInteger || b.class == lxDecimal || b.class == lxScientific):
		return true // '/' before '/*', '-' or '.' before digits
	case a.class == lxQuoted && b.class == lxQuoted:
		return true
	case wordLike(a.class) && b.class == lxSymbol:
		return true // '-' after a generic word, '.' after digits
	}
	return false
}

// H_C13_lexemes: K lexemes, separated exactly where neighbours could merge.
func H_C13_lexemes() {
	kind := vParam("TOK") // tkGeneric or tkExpression
	K := vParam("K")
	k := 1 + vChoice("k", K)
	var want []lexeme
	var input []rune
	for i := 0; i < k; i++ {
		lx := makeLexeme(kind, i == k-1)
		if len(want) > 0 {
			prev := want[len(want)-1]
			if prev.class == lxWhitespace && lx.class == lxWhitespace {
				vAssume(false)
			}
			if needSpace(prev, lx) {
				sp := lexeme{lxWhitespace, []rune{' '}, tokenizers.Whitespace}
				want = append(want, sp)
				input = append(input, ' ')
			}
		}
		want = append(want, lx)
		input = append(input, lx.text...)
	}
	t := newTokenizer(kind)
	got := t.TokenizeBuffer(string(input))
	vAssert(len(got) == len(want)+1, "lexemes:count")
	if len(got) != len(want)+1 {
		return
	}
	for i, w := range want {
		vAssert(got[i].Value() == string(w.text), "lexemes:text")
		vAssert(got[i].Type() == w.typ, "lexemes:class")
	}
	vAssert(got[len(want)].Type() == tokenizers.Eof, "lexemes:eof")
	vDone()
}
