package tok

import (
	"github.com/pip-services3-gox/pip-services3-expressions-gox/csv"
	"github.com/pip-services3-gox/pip-services3-expressions-gox/tokenizers"
)

// C09: CSV text round-trips through the tokenizer for any table and configuration.

type csvCfg struct {
	seps   []rune
	quotes []rune
	eol    []rune
}

// c09SymDelim: a delimiter that is either one of six usual ASCII delimiters or ANY
// character of U+0100..U+FFFE (symbolic).
func c09SymDelim(tag string) rune {
	if vChoice(tag+".plane", 2) == 0 {
		return []rune{',', ';', '\t', '|', '"', '\''}[vChoice(tag+".ascii", 6)]
	}
	r := vRune(tag)
	vAssume(vAnd(r >= 0x100, r <= 0xFFFE))
	return r
}

func c09Config() csvCfg {
	si, qi := 0, 0
	if cfg := vParam("CFG"); cfg == -2 {
		// one symbolic separator and one symbolic quote symbol (any valid pair)
		sep, quote := c09SymDelim("sep"), c09SymDelim("quote")
		vAssume(sep != quote)
		// reachable with SetFieldSeparators then SetQuoteSymbols from the defaults (',' and '"'):
		// each setter validates against the other's current value
		vAssume(sep != '"')
		eol := [][]rune{{'\n'}, {'\r'}, {'\r', '\n'}, {'\n', '\r'}}[vChoice("cfg.eol", 4)]
		return csvCfg{[]rune{sep}, []rune{quote}, eol}
	} else if cfg >= 0 {
		si, qi = cfg%3, (cfg/3)%3 // a fixed separator / quote configuration (all four row endings)
	} else {
		si, qi = vChoice("cfg.seps", 3), vChoice("cfg.quotes", 3)
	}
	seps := [][]rune{{','}, {';', '\t'}, {',', ';'}}[si]
	quotes := [][]rune{{'"'}, {'"', '\''}, {'«'}}[qi]
	eol := [][]rune{{'\n'}, {'\r'}, {'\r', '\n'}, {'\n', '\r'}}[vChoice("cfg.eol", 4)]
	return csvCfg{seps, quotes, eol}
}

func containsAny(field []rune, set []rune) bool {
	res := false
	for _, r := range field {
		for _, s := range set {
			res = vOr(res, r == s)
		}
	}
	return res
}

// c09Write: the reference writer. Raw when the field contains no separator, quote or
// line break (and quoting is not forced); otherwise wrapped in a quote symbol with
// that symbol doubled inside.
func c09Write(cfg csvCfg, field []rune) []rune {
	special := vOr(vOr(containsAny(field, cfg.seps), containsAny(field, cfg.quotes)), containsAny(field, []rune{'\r', '\n'}))
	forced := vChoice("force-quote", 2) == 1
	if !forced {
		if !special {
			return field
		}
	}
	q := cfg.quotes[vChoice("quote-symbol", len(cfg.quotes))]
	out := []rune{q}
	for _, r := range field {
		if r == q {
			out = append(out, q)
		}
		out = append(out, r)
	}
	return append(out, q)
}

// H_C09_roundtrip
func H_C09_roundtrip() {
	cfg := c09Config()
	shape := [][2]int{{1, 1}, {1, 2}, {2, 1}, {2, 2}, {1, 3}, {3, 1}}[vParam("SHAPE")]
	rows, cols := shape[0], shape[1]
	F := vParam("F")
	table := make([][][]rune, rows)
	var text []rune
	for i := 0; i < rows; i++ {
		if i > 0 {
			text = append(text, cfg.eol...)
		}
		table[i] = make([][]rune, cols)
		for j := 0; j < cols; j++ {
			n := vChoice("field.len", F+1)
			f := make([]rune, n)
			for k := range f {
				f[k] = vRune("f")
				vAssume(f[k] <= 0xFFFE)
			}
			table[i][j] = f
			if j > 0 {
				text = append(text, cfg.seps[vChoice("separator", len(cfg.seps))])
			}
			text = append(text, c09Write(cfg, f)...)
		}
	}
	// a single empty field in the last row would make the text end with a row ending: excluded
	t := csv.NewCsvTokenizer()
	if vParam("RECONF") == 1 {
		// the tokenizer was configured differently and used before ("any valid choice" of
		// separators and quote symbols includes a choice made on a used instance)
		t.SetFieldSeparators([]rune{'|'})
		t.SetQuoteSymbols([]rune{'^'})
		t.SetDecodeStrings(true)
		t.TokenizeBuffer("a|^b^^^\n" + string(cfg.quotes[0]) + string(cfg.seps[0]))
	}
	t.SetFieldSeparators(cfg.seps)
	t.SetQuoteSymbols(cfg.quotes)
	t.SetDecodeStrings(true)
	toks := t.TokenizeBuffer(string(text))

	var got [][]string
	var row []string
	cur := ""
	eols := 0
	for _, tok := range toks {
		switch tok.Type() {
		case tokenizers.Eol:
			row = append(row, cur)
			got = append(got, row)
			row, cur = nil, ""
			eols++
		case tokenizers.Eof:
			row = append(row, cur)
			got = append(got, row)
			row, cur = nil, ""
		case tokenizers.Symbol:
			row = append(row, cur)
			cur = ""
		default:
			cur += tok.Value()
		}
	}
	vAssert(eols == rows-1, "csv:each-line-ending-is-one-eol")
	vAssert(len(got) == rows, "csv:rows")
	if len(got) != rows {
		return
	}
	for i := range got {
		vAssert(len(got[i]) == cols, "csv:fields-per-row")
		if len(got[i]) != cols {
			return
		}
		for j := range got[i] {
			vAssert(got[i][j] == string(table[i][j]), "csv:field-recovered")
		}
	}
	vDone()
}
