package main

// Environment model: summaries of library functions (section 2.4 of
// DESIGN.md) and the harness intrinsics.

import (
	"fmt"
	"os"
	"go/types"
	"math"
	"unicode"
	"strconv"
	"strings"
	"time"

	cconv "github.com/pip-services3-gox/pip-services3-commons-gox/convert"
)

type extFn func(fr *frame, args []value) value

var summaries map[string]extFn
var intrinsics map[string]extFn

const unixToInternal int64 = (1969*365 + 1969/4 - 1969/100 + 1969/400) * 86400

func init() {
	summaries = map[string]extFn{
		"(*strings.Builder).WriteRune":   sumBuilderWriteRune,
		"(*strings.Builder).WriteString": sumBuilderWriteString,
		"(*strings.Builder).WriteByte":   sumBuilderWriteByte,
		"(*strings.Builder).String":      sumBuilderString,
		"(*strings.Builder).Len":         sumBuilderLen,
		"(*strings.Builder).Reset":       sumBuilderReset,
		"strings.Trim":                   sumTrim,
		"strings.TrimSpace":              sumTrimSpace,
		"strings.ReplaceAll":             sumReplaceAll,
		"strings.ToUpper":                func(fr *frame, a []value) value { return fr.m.caseMap(a[0].(Str), true) },
		"strings.ToLower":                func(fr *frame, a []value) value { return fr.m.caseMap(a[0].(Str), false) },
		"strings.Contains":               sumContains,
		"strings.HasPrefix":              sumHasPrefix,
		"strings.HasSuffix":              sumHasSuffix,
		"strings.TrimPrefix":             sumTrimPrefix,
		"strings.TrimSuffix":             sumTrimSuffix,
		"strings.ContainsRune":           sumContainsRune,
		"strings.ContainsAny":            sumContainsAny,
		"strings.EqualFold":              sumEqualFold,
		"strings.Index":                  sumIndex,
		"strings.IndexRune": func(fr *frame, a []value) value {
			return sumIndex(fr, []value{a[0], Str{R: []*Term{fr.m.sanitizeRune(a[1].(*Term))}}})
		},
		"strings.IndexByte":                 sumIndexByte,
		"internal/bytealg.IndexByteString":  sumIndexByte,
		"internal/stringslite.IndexByte":    sumIndexByte,
		"internal/stringslite.Index":        sumIndex,
		"internal/stringslite.HasPrefix":    sumHasPrefix,
		"internal/stringslite.HasSuffix":    sumHasSuffix,
		"internal/stringslite.TrimPrefix":   sumTrimPrefix,
		"internal/stringslite.TrimSuffix":   sumTrimSuffix,
		"strings.Join": func(fr *frame, a []value) value {
			var out []*Term
			opq := false
			sep := a[1].(Str)
			for i, e := range a[0].([]value) {
				if i > 0 {
					out = append(out, sep.R...)
				}
				es := e.(Str)
				out = append(out, es.R...)
				opq = opq || es.Opaque
			}
			return Str{R: out, Opaque: opq || sep.Opaque}
		},
		"(*strings.Builder).Grow": func(fr *frame, a []value) value { return nil },
		"unicode/utf8.DecodeRuneInString": func(fr *frame, a []value) value {
			s := a[0].(Str)
			fr.m.needConcreteStr(s, "DecodeRuneInString")
			if len(s.R) == 0 {
				return tuple{mkBV(32, 0xFFFD), mkInt(64, 0)}
			}
			return tuple{fr.m.sanitizeRune(s.R[0]), fr.m.utf8Len(s.R[0])}
		},
		"unicode/utf8.DecodeLastRuneInString": func(fr *frame, a []value) value {
			s := a[0].(Str)
			fr.m.needConcreteStr(s, "DecodeLastRuneInString")
			if len(s.R) == 0 {
				return tuple{mkBV(32, 0xFFFD), mkInt(64, 0)}
			}
			r := s.R[len(s.R)-1]
			return tuple{fr.m.sanitizeRune(r), fr.m.utf8Len(r)}
		},
		"unicode/utf8.ValidString": func(fr *frame, a []value) value {
			c := fr.m.ctx
			var res *Term = trueT
			for _, r := range a[0].(Str).R {
				if !r.Valid {
					res = c.And(res, c.Ult(r, mkBV(32, pseudoBase)))
				}
			}
			return res
		},
		"unicode/utf8.RuneCountInString": func(fr *frame, a []value) value { return mkInt(64, int64(len(a[0].(Str).R))) },
		"unicode/utf8.RuneLen":           func(fr *frame, a []value) value { return fr.m.utf8Len(a[0].(*Term)) },
		"unicode.ToUpper":                func(fr *frame, a []value) value { return fr.m.caseMapRune(a[0].(*Term), true) },
		"unicode.ToLower":                func(fr *frame, a []value) value { return fr.m.caseMapRune(a[0].(*Term), false) },
		"unicode.IsDigit": func(fr *frame, a []value) value {
			r := a[0].(*Term)
			if !r.IsConst() {
				// ASCII digits only when the rune is known to be ASCII; otherwise not modelled
				if b := fr.m.getBounds(r); !(r.Op == OVar && b[1] < 0x80) {
					panic(unsupported("unicode.IsDigit on a symbolic non-ASCII rune"))
				}
				c := fr.m.ctx
				return c.And(c.Ule(mkBV(32, '0'), r), c.Ule(r, mkBV(32, '9')))
			}
			v := rune(int32(r.U))
			return mkBool(v >= '0' && v <= '9' || (v > 0x7f && unicodeIsDigit(v)))
		},
		"strings.Repeat":                 sumRepeat,
		"strconv.Itoa":                   sumItoa,
		"strconv.ParseInt":               sumParseInt,
		"strconv.FormatBool": func(fr *frame, a []value) value {
			if fr.m.branch(a[0].(*Term)) {
				return mkStr("true")
			}
			return mkStr("false")
		},
		"strconv.FormatFloat": func(fr *frame, a []value) value {
			f := fr.m.simplify(a[0].(*Term))
			if !f.IsConst() {
				return Str{Opaque: true, OTag: "ftoa(" + f.SMT() + ")"}
			}
			fm := fr.m.concretize(a[1].(*Term), 1, "fmt")
			pr := fr.m.concretize(a[2].(*Term), 1, "prec")
			bs := fr.m.concretize(a[3].(*Term), 1, "bits")
			return mkStr(strconv.FormatFloat(f.F, byte(fm), int(pr), int(bs)))
		},
		"strconv.FormatInt": func(fr *frame, a []value) value {
			t := fr.m.simplify(a[0].(*Term))
			if !t.IsConst() {
				return Str{Opaque: true, OTag: "itoa(" + t.SMT() + ")"}
			}
			return mkStr(strconv.FormatInt(t.Int(), int(fr.m.concretize(a[1].(*Term), 1, "base"))))
		},
		"math.Abs":                       func(fr *frame, a []value) value { return fr.m.ctx.FAbs(a[0].(*Term)) },
		"math.Trunc":                     func(fr *frame, a []value) value { return fr.m.ctx.FRound(a[0].(*Term), 0) },
		"math.Floor":                     func(fr *frame, a []value) value { return fr.m.ctx.FRound(a[0].(*Term), 1) },
		"math.Ceil":                      func(fr *frame, a []value) value { return fr.m.ctx.FRound(a[0].(*Term), 2) },
		"math.Round":                     func(fr *frame, a []value) value { return fr.m.ctx.FRound(a[0].(*Term), 3) },
		"math.Sqrt":                      func(fr *frame, a []value) value { return fr.m.ctx.FSqrt(a[0].(*Term)) },
		"math.IsNaN":                     func(fr *frame, a []value) value { return fr.m.ctx.FIsNaN(a[0].(*Term)) },
		"math.Pow":                       mathUF("uf_pow", math.Pow),
		"math.Exp":                       mathUF1("uf_exp", math.Exp),
		"math.Log":                       mathUF1("uf_log", math.Log),
		"math.Log10":                     mathUF1("uf_log10", math.Log10),
		"math.Sin":                       mathUF1("uf_sin", math.Sin),
		"math.Cos":                       mathUF1("uf_cos", math.Cos),
		"math.Tan":                       mathUF1("uf_tan", math.Tan),
		"math.Asin":                      mathUF1("uf_asin", math.Asin),
		"math.Acos":                      mathUF1("uf_acos", math.Acos),
		"math.Atan":                      mathUF1("uf_atan", math.Atan),
		"math.Inf": func(fr *frame, a []value) value {
			s := fr.m.concretize(a[0].(*Term), 2, "math.Inf sign")
			return mkFP(64, math.Inf(int(s)))
		},
		"math.NaN":          func(fr *frame, a []value) value { return mkFP(64, math.NaN()) },
		"time.Now":          sumTimeNow,
		"time.Unix":         sumTimeUnix,
		"time.Date":         sumTimeDate,
		"(time.Time).Weekday": sumWeekday,
		"time.FixedZone": func(fr *frame, a []value) value {
			p := new(value)
			*p = structure{a[0].(Str), fr.m.ctx.Resize(a[1].(*Term), 64, true)}
			if fr.m.wsActive {
				fr.m.registerFresh(p)
			}
			return p
		},
		"(time.Time).UTC": func(fr *frame, a []value) value {
			st := a[0].(structure)
			return structure{st[0], st[1], (*value)(nil)}
		},
		"(time.Time).Local": func(fr *frame, a []value) value {
			st := a[0].(structure)
			return structure{st[0], st[1], fr.m.localLoc()}
		},
		"(time.Time).In": func(fr *frame, a []value) value {
			st := a[0].(structure)
			return structure{st[0], st[1], a[1]}
		},
		"(time.Time).Sub":     sumTimeSub,
		"math/rand.Float32": sumRandFloat32,

		"(*github.com/pip-services3-gox/pip-services3-commons-gox/convert._TStringConverter).ToString":     sumToString,
		"(*github.com/pip-services3-gox/pip-services3-commons-gox/convert._TIntegerConverter).ToInteger":   sumConv("int"),
		"(*github.com/pip-services3-gox/pip-services3-commons-gox/convert._TLongConverter).ToLong":         sumConv("long"),
		"(*github.com/pip-services3-gox/pip-services3-commons-gox/convert._TFloatConverter).ToFloat":       sumConv("float"),
		"(*github.com/pip-services3-gox/pip-services3-commons-gox/convert._TDoubleConverter).ToDouble":     sumConv("double"),
		"(*github.com/pip-services3-gox/pip-services3-commons-gox/convert._TBooleanConverter).ToBoolean":   sumConv("bool"),
		"(*github.com/pip-services3-gox/pip-services3-commons-gox/convert._TDurationConverter).ToDuration": sumConv("duration"),
		"(*github.com/pip-services3-gox/pip-services3-commons-gox/convert._TDateTimeConverter).ToDateTime": sumConv("datetime"),
	}
	intrinsics = map[string]extFn{
		"vRune":   func(fr *frame, a []value) value { return fr.m.nondet(a[0], SBV32, "rune") },
		"vInt":    func(fr *frame, a []value) value { return fr.m.nondet(a[0], SBV64, "int") },
		"vInt64":  func(fr *frame, a []value) value { return fr.m.nondet(a[0], SBV64, "int64") },
		"vInt32":  func(fr *frame, a []value) value { return fr.m.nondet(a[0], SBV32, "int32") },
		"vUint32": func(fr *frame, a []value) value { return fr.m.nondet(a[0], SBV32, "uint32") },
		"vUint":   func(fr *frame, a []value) value { return fr.m.nondet(a[0], SBV64, "uint") },
		"vBool":   func(fr *frame, a []value) value { return fr.m.nondet(a[0], SBool, "bool") },
		"vF64":    func(fr *frame, a []value) value { return fr.m.nondet(a[0], SF64, "f64") },
		"vF32":    func(fr *frame, a []value) value { return fr.m.nondet(a[0], SF32, "f32") },
		"vChoice": func(fr *frame, a []value) value {
			m := fr.m
			name := m.nondetName(strArg(a[0]))
			n := int(m.concretize(a[1].(*Term), 1, "vChoice n"))
			if n <= 0 {
				panic(pathEnd{"assume"})
			}
			conds := make([]*Term, n)
			for i := range conds {
				conds[i] = trueT
			}
			// debugging aid: VERIF_FIX="name#k=v,..." pins forked choices (restricts the exploration)
			if fix := os.Getenv("VERIF_FIX"); fix != "" {
				for _, kv := range strings.Split(fix, ",") {
					if p := strings.SplitN(kv, "=", 2); len(p) == 2 && p[0] == name {
						if v, err := strconv.Atoi(p[1]); err == nil && v >= 0 && v < n {
							for i := range conds {
								if i != v {
									conds[i] = falseT
								}
							}
						}
					}
				}
			}
			d := m.decide(conds)
			m.choices[name] = int64(d)
			return mkInt(64, int64(d))
		},
		"vParam": func(fr *frame, a []value) value {
			name := strArg(a[0])
			v, ok := fr.m.params[name]
			if !ok {
				panic(fmt.Sprintf("engine: harness parameter %q not configured", name))
			}
			return mkInt(64, int64(v))
		},
		"vAssume": func(fr *frame, a []value) value { fr.m.assume(a[0].(*Term)); return nil },
		"vAssert": func(fr *frame, a []value) value { fr.m.assert(a[0].(*Term), strArg(a[1])); return nil },
		"vDone":   func(fr *frame, a []value) value { fr.m.res.AssertReach["<done>"]++; return nil },
		"vAnd":    func(fr *frame, a []value) value { return fr.m.ctx.And(a[0].(*Term), a[1].(*Term)) },
		"vOr":     func(fr *frame, a []value) value { return fr.m.ctx.Or(a[0].(*Term), a[1].(*Term)) },
		"vImp": func(fr *frame, a []value) value {
			return fr.m.ctx.Or(fr.m.ctx.Not(a[0].(*Term)), a[1].(*Term))
		},
		"vIteInt":   func(fr *frame, a []value) value { return fr.m.ctx.Ite(a[0].(*Term), a[1].(*Term), a[2].(*Term)) },
		"vIteRune":  func(fr *frame, a []value) value { return fr.m.ctx.Ite(a[0].(*Term), a[1].(*Term), a[2].(*Term)) },
		"vIteBool":  func(fr *frame, a []value) value { return fr.m.ctx.Ite(a[0].(*Term), a[1].(*Term), a[2].(*Term)) },
		"vIteI64":   func(fr *frame, a []value) value { return fr.m.ctx.Ite(a[0].(*Term), a[1].(*Term), a[2].(*Term)) },
		"vIteF64":   func(fr *frame, a []value) value { return fr.m.ctx.Ite(a[0].(*Term), a[1].(*Term), a[2].(*Term)) },
		"vConcrete": func(fr *frame, a []value) value {
			// vConcrete(x int) int: fork over the feasible values of x (at most 64)
			return mkInt(64, fr.m.concretize(a[0].(*Term), 64, "vConcrete"))
		},
		"vIsNaN64": func(fr *frame, a []value) value { return fr.m.ctx.FIsNaN(a[0].(*Term)) },
		"vIsNaN32": func(fr *frame, a []value) value { return fr.m.ctx.FIsNaN(a[0].(*Term)) },
		"vSameBits64": func(fr *frame, a []value) value {
			// bit-identical or both NaN
			c := fr.m.ctx
			x, y := a[0].(*Term), a[1].(*Term)
			return c.Or(c.Eq(x, y), c.And(c.FIsNaN(x), c.FIsNaN(y)))
		},
		"vSameBits32": func(fr *frame, a []value) value {
			c := fr.m.ctx
			x, y := a[0].(*Term), a[1].(*Term)
			return c.Or(c.Eq(x, y), c.And(c.FIsNaN(x), c.FIsNaN(y)))
		},
		"vWriteSetBegin": func(fr *frame, a []value) value {
			m := fr.m
			m.wsActive = true
			m.cellBorn = map[*value]int64{}
			m.freshMaps = map[*MapV]bool{}
			m.wsHits = nil
			return nil
		},
		"vWriteSetEnd": func(fr *frame, a []value) value {
			m := fr.m
			m.wsActive = false
			id := strArg(a[0])
			m.res.AssertReach[id]++
			if len(m.wsHits) > 0 && m.cursor >= len(m.prefix) {
				for _, h := range m.wsHits {
					m.violation(id+"@"+shortPkg(h), "write to pre-existing object in "+h, nil)
				}
			}
			m.wsHits = nil
			return nil
		},
		"vConcurrently": func(fr *frame, a []value) value {
			// the engine has no concurrency model: the body runs once (index 0) under the
			// write-set monitor; the native replay runs it in two goroutines under -race
			fr.m.call(fr, a[0], []value{mkInt(64, 0)})
			return nil
		},
		"vNote": func(fr *frame, a []value) value {
			// vNote(c, id): like vAssert but a failure is only recorded (evidence), never a violation
			m := fr.m
			id := strArg(a[1])
			c := m.simplify(a[0].(*Term))
			verdict := "held"
			if c.IsConst() {
				if !c.Bool() {
					verdict = "FAILED"
				}
			} else if m.cursor >= len(m.prefix) {
				if r, _ := m.check(m.ctx.Not(c), false); r != "unsat" {
					verdict = "FAILED"
					if r != "sat" {
						verdict = "undecided"
					}
				}
			} else {
				return nil
			}
			m.res.Leads = append(m.res.Leads, "note:"+id+"="+verdict)
			return nil
		},
		"vSameState": func(fr *frame, a []value) value {
			return fr.m.deepEqual(a[0], a[1], map[[2]*value]bool{})
		},
		"vObserve": func(fr *frame, a []value) value {
			fr.m.res.Leads = append(fr.m.res.Leads, strArg(a[0])+"="+describe(a[1]))
			return nil
		},
	}
}

func strArg(v value) string {
	s, ok := v.(Str).Concrete()
	if !ok {
		panic("engine: intrinsic needs a constant string argument")
	}
	return s
}

func describe(v value) string {
	switch v := v.(type) {
	case iface:
		if v.t == nil {
			return "nil"
		}
		return describe(v.v)
	case *Term:
		if v.IsConst() {
			switch v.S.K {
			case KBool:
				return strconv.FormatBool(v.Bool())
			case KBV:
				return strconv.FormatInt(v.Int(), 10)
			default:
				return strconv.FormatFloat(v.F, 'g', -1, 64)
			}
		}
		return v.SMT()
	case Str:
		return strconv.Quote(v.String())
	}
	return fmt.Sprintf("%T", v)
}

func (m *Machine) nondet(nameV value, s Sort, kind string) *Term {
	name := m.nondetName(strArg(nameV))
	t := m.ctx.Var(name, s)
	if kind == "rune" && !t.Valid {
		t.Valid = true
		c := m.ctx
		m.bounds[t] = [2]int64{0, 0x10FFFF}
		m.addPC(c.Or(c.Ult(t, mkBV(32, 0xD800)),
			c.And(c.Ult(mkBV(32, 0xDFFF), t), c.Ule(t, mkBV(32, 0x10FFFF)))))
	}
	return t
}

// ---------------------------------------------------------------------
// strings.Builder: the struct is {addr *Builder; buf []byte}; the engine
// keeps the content as a Str in field 1.

func builderCell(fr *frame, p value) *value {
	ptr := p.(*value)
	if ptr == nil {
		fr.m.rtPanic(fr, "invalid memory address or nil pointer dereference")
	}
	st := (*ptr).(structure)
	return &st[1]
}

func builderGet(cell *value) Str {
	if s, ok := (*cell).(Str); ok {
		return s
	}
	return Str{}
}

func builderAppend(fr *frame, cell *value, add Str) {
	cur := builderGet(cell)
	fr.m.noteWrite(fr, cell)
	if cur.Opaque || add.Opaque {
		*cell = Str{Opaque: true, OTag: cur.repr() + "+" + add.repr()}
	} else {
		*cell = fr.m.joinStr(cur, add)
	}
}

func sumBuilderWriteRune(fr *frame, a []value) value {
	cell := builderCell(fr, a[0])
	r := fr.m.sanitizeRune(a[1].(*Term))
	builderAppend(fr, cell, Str{R: []*Term{r}})
	return tuple{fr.m.utf8Len(r), iface{}}
}

func sumBuilderWriteString(fr *frame, a []value) value {
	cell := builderCell(fr, a[0])
	s := a[1].(Str)
	builderAppend(fr, cell, s)
	return tuple{fr.m.strLen(Str{R: s.R}), iface{}}
}

func sumBuilderWriteByte(fr *frame, a []value) value {
	cell := builderCell(fr, a[0])
	b := a[1].(*Term)
	cur := builderGet(cell)
	if cur.Opaque {
		panic(unsupported("Builder.WriteByte after opaque text"))
	}
	fr.m.noteWrite(fr, cell)
	*cell = fr.m.appendByte(cur, b)
	return iface{}
}

func sumBuilderString(fr *frame, a []value) value { return builderGet(builderCell(fr, a[0])) }
func sumBuilderLen(fr *frame, a []value) value    { return fr.m.strLen(builderGet(builderCell(fr, a[0]))) }
func sumBuilderReset(fr *frame, a []value) value {
	cell := builderCell(fr, a[0])
	fr.m.noteWrite(fr, cell)
	*cell = Str{}
	return nil
}

// strings.Trim(s, cutset) with a concrete ASCII cutset: forks per rune examined.
func sumTrim(fr *frame, a []value) value {
	m := fr.m
	s := a[0].(Str)
	m.needConcreteStr(s, "strings.Trim")
	cut, ok := a[1].(Str).Concrete()
	if !ok {
		panic(unsupported("strings.Trim with symbolic cutset"))
	}
	inCut := func(r *Term) bool {
		c := m.ctx
		var cond *Term = falseT
		for _, x := range cut {
			cond = c.Or(cond, c.Eq(r, mkBV(32, uint64(uint32(x)))))
		}
		return m.branch(cond)
	}
	lo, hi := 0, len(s.R)
	for lo < hi && inCut(s.R[lo]) {
		lo++
	}
	for hi > lo && inCut(s.R[hi-1]) {
		hi--
	}
	return Str{R: s.R[lo:hi]}
}

func sumTrimSpace(fr *frame, a []value) value {
	gs, ok := a[0].(Str).Concrete()
	if !ok {
		panic(unsupported("strings.TrimSpace on symbolic string"))
	}
	return mkStr(strings.TrimSpace(gs))
}

// strings.ReplaceAll(s, old, new): rune-wise matching (valid UTF-8), forks per comparison.
func sumReplaceAll(fr *frame, a []value) value {
	m := fr.m
	s, old, nw := a[0].(Str), a[1].(Str), a[2].(Str)
	m.needConcreteStr(s, "strings.ReplaceAll")
	m.needConcreteStr(old, "strings.ReplaceAll")
	if gs, ok := s.Concrete(); ok {
		if go_, ok := old.Concrete(); ok {
			if gn, ok := nw.Concrete(); ok {
				return mkStr(strings.ReplaceAll(gs, go_, gn))
			}
		}
	}
	if len(old.R) == 0 {
		panic(unsupported("strings.ReplaceAll with empty old and symbolic operands"))
	}
	var out []*Term
	i := 0
	for i < len(s.R) {
		if i+len(old.R) <= len(s.R) {
			eq := m.strEq(Str{R: s.R[i : i+len(old.R)]}, old)
			if m.branch(eq) {
				out = append(out, nw.R...)
				i += len(old.R)
				continue
			}
		}
		out = append(out, s.R[i])
		i++
	}
	return Str{R: out, Opaque: nw.Opaque}
}

func sumContains(fr *frame, a []value) value {
	m := fr.m
	s, sub := a[0].(Str), a[1].(Str)
	m.needConcreteStr(s, "strings.Contains")
	m.needConcreteStr(sub, "strings.Contains")
	c := m.ctx
	if len(sub.R) == 0 {
		return trueT
	}
	var res *Term = falseT
	for i := 0; i+len(sub.R) <= len(s.R); i++ {
		res = c.Or(res, m.strEq(Str{R: s.R[i : i+len(sub.R)]}, sub))
	}
	return res
}

func sumHasPrefix(fr *frame, a []value) value {
	m := fr.m
	s, p := a[0].(Str), a[1].(Str)
	if len(p.R) > len(s.R) {
		return falseT
	}
	return m.strEq(Str{R: s.R[:len(p.R)]}, p)
}

func sumRepeat(fr *frame, a []value) value {
	s := a[0].(Str)
	n := fr.m.concretize(a[1].(*Term), 8, "strings.Repeat count")
	var out []*Term
	for i := int64(0); i < n; i++ {
		out = append(out, s.R...)
	}
	return Str{R: out, Opaque: s.Opaque}
}

func sumItoa(fr *frame, a []value) value {
	t := fr.m.simplify(a[0].(*Term))
	if t.IsConst() {
		return mkStr(strconv.Itoa(int(t.Int())))
	}
	return Str{Opaque: true, OTag: "itoa(" + t.SMT() + ")"}
}

// ---------------------------------------------------------------------
// math

func mathUF1(name string, f func(float64) float64) extFn {
	return func(fr *frame, a []value) value {
		x := a[0].(*Term)
		if x.IsConst() {
			return mkFP(64, f(x.F))
		}
		return fr.m.ctx.UF(name, SF64, x)
	}
}

func mathUF(name string, f func(float64, float64) float64) extFn {
	return func(fr *frame, a []value) value {
		x, y := a[0].(*Term), a[1].(*Term)
		if x.IsConst() && y.IsConst() {
			return mkFP(64, f(x.F, y.F))
		}
		return fr.m.ctx.UF(name, SF64, x, y)
	}
}

// ---------------------------------------------------------------------
// time

func (m *Machine) localLoc() *value {
	if m.timeLocal == nil {
		p := new(value)
		*p = structure{mkStr("Local"), mkInt(64, 0)} // the process zone is modelled as UTC (replays run with TZ=UTC)
		m.timeLocal = p
	}
	return m.timeLocal
}

// locOffset: seconds east of UTC of a modelled *time.Location (nil = UTC).
func (m *Machine) locOffset(loc value) *Term {
	p, _ := loc.(*value)
	if p == nil {
		return mkInt(64, 0)
	}
	if st, ok := (*p).(structure); ok && len(st) == 2 {
		if t, ok := st[1].(*Term); ok {
			return t
		}
	}
	panic(unsupported("time.Location that was not built by time.FixedZone / time.Local / time.UTC"))
}

func (m *Machine) mkTime(sec, nsec *Term) value {
	c := m.ctx
	wall := c.Resize(nsec, 64, false)
	ext := c.Add(sec, mkInt(64, unixToInternal))
	return structure{wall, ext, m.localLoc()}
}

func sumTimeUnix(fr *frame, a []value) value {
	m := fr.m
	sec, nsec := a[0].(*Term), a[1].(*Term)
	ns := m.simplify(nsec)
	if ns.IsConst() {
		if ns.Int() < 0 || ns.Int() >= 1e9 {
			panic(unsupported("time.Unix with out-of-range nsec"))
		}
		return m.mkTime(sec, ns)
	}
	// symbolic nanoseconds: must be known to lie in [0, 1e9) (no normalisation needed)
	c := m.ctx
	inr := c.And(c.Sle(mkInt(64, 0), ns), c.Slt(ns, mkInt(64, 1000000000)))
	if !m.branch(inr) {
		panic(unsupported("time.Unix with symbolic nsec outside [0, 1e9)"))
	}
	return m.mkTime(sec, ns)
}

func sumTimeNow(fr *frame, a []value) value {
	m := fr.m
	c := m.ctx
	sec := m.ctx.Var(m.nondetName("time.Now.sec"), SBV64)
	lo := mkInt(64, 0)
	if m.lastNow != nil {
		lo = m.lastNow
	}
	m.addPC(c.And(c.Sle(lo, sec), c.Sle(sec, mkInt(64, 1<<40))))
	m.lastNow = sec
	return m.mkTime(sec, mkInt(64, 0))
}

// time.Date. With concrete year/month/day the Unix second is exact and linear in
// the (possibly symbolic) hour/minute/second and in the zone offset; otherwise
// an uninterpreted constructor of the Unix second from its arguments.
func sumTimeDate(fr *frame, a []value) value {
	m := fr.m
	c := m.ctx
	allConst := true
	var args []*Term
	for i := 0; i < 7; i++ {
		t := m.simplify(c.Resize(a[i].(*Term), 64, true))
		if !t.IsConst() {
			allConst = false
		}
		args = append(args, t)
	}
	off := m.locOffset(a[7])
	loc := a[7]
	mk := func(sec, nsec *Term) value {
		t := m.mkTime(c.Sub(sec, off), nsec).(structure)
		t[2] = loc
		return t
	}
	if allConst {
		d := time.Date(int(args[0].Int()), time.Month(args[1].Int()), int(args[2].Int()), int(args[3].Int()),
			int(args[4].Int()), int(args[5].Int()), int(args[6].Int()), time.UTC)
		return mk(mkInt(64, d.Unix()), mkInt(64, int64(d.Nanosecond())))
	}
	if args[0].IsConst() && args[1].IsConst() && args[2].IsConst() && args[6].IsConst() && args[6].Int() >= 0 && args[6].Int() < 1000000000 {
		base := time.Date(int(args[0].Int()), time.Month(args[1].Int()), int(args[2].Int()), 0, 0, 0, 0, time.UTC).Unix()
		small := func(t *Term) bool {
			return m.branch(c.And(c.Sle(mkInt(64, -1<<31), t), c.Sle(t, mkInt(64, 1<<31))))
		}
		if small(args[3]) && small(args[4]) && small(args[5]) {
			sec := c.Add(mkInt(64, base), c.Add(c.Mul(args[3], mkInt(64, 3600)), c.Add(c.Mul(args[4], mkInt(64, 60)), args[5])))
			return mk(sec, args[6])
		}
	}
	sec := m.ctx.UF("uf_date", SBV64, args...)
	return mk(sec, mkInt(64, 0))
}

// (time.Time).Weekday: exact, from the seconds since the Unix epoch shifted by the zone offset.
func sumWeekday(fr *frame, a []value) value {
	m := fr.m
	c := m.ctx
	st := a[0].(structure)
	off := m.locOffset(st[2])
	t := m.simplify(c.Add(c.Sub(st[1].(*Term), mkInt(64, unixToInternal)), off))
	if t.IsConst() {
		return mkInt(64, int64(time.Unix(t.Int(), 0).UTC().Weekday()))
	}
	const week = 7 * 86400
	const shift = week << 32 // a multiple of a week: keeps the dividend non-negative
	if !m.branch(c.And(c.Slt(mkInt(64, -shift), t), c.Slt(t, mkInt(64, shift)))) {
		return m.ctx.UF("uf_weekday", SBV64, t)
	}
	days := c.UDiv(c.Add(t, mkInt(64, shift)), mkInt(64, 86400))
	return c.URem(c.Add(days, mkInt(64, 4)), mkInt(64, 7))
}

func sumRandFloat32(fr *frame, a []value) value {
	m := fr.m
	c := m.ctx
	f := c.Var(m.nondetName("rand.Float32"), SF32)
	m.addPC(c.And(c.FLe(mkFP(32, 0), f), c.FLt(f, mkFP(32, 1))))
	return f
}

// ---------------------------------------------------------------------
// pip-services3-commons-gox/convert

// toNative converts an interface payload to the native Go value.
func (m *Machine) toNative(v value) (interface{}, bool) {
	i, ok := v.(iface)
	if !ok {
		return nil, false
	}
	if i.t == nil {
		return nil, true
	}
	named := typeString(i.t)
	switch p := i.v.(type) {
	case *Term:
		p = m.simplify(p)
		if !p.IsConst() {
			return nil, false
		}
		switch named {
		case "time.Duration":
			return time.Duration(p.Int()), true
		}
		b := basicOf(i.t)
		if b == nil {
			return nil, false
		}
		switch b.Kind() {
		case types.Bool:
			return p.Bool(), true
		case types.Int:
			return int(p.Int()), true
		case types.Int8:
			return int8(p.Int()), true
		case types.Int16:
			return int16(p.Int()), true
		case types.Int32:
			return int32(p.Int()), true
		case types.Int64:
			return p.Int(), true
		case types.Uint:
			return uint(p.U), true
		case types.Uint8:
			return uint8(p.U), true
		case types.Uint16:
			return uint16(p.U), true
		case types.Uint32:
			return uint32(p.U), true
		case types.Uint64:
			return p.U, true
		case types.Float32:
			return float32(p.F), true
		case types.Float64:
			return p.F, true
		}
	case Str:
		gs, ok := p.Concrete()
		if !ok {
			return nil, false
		}
		return gs, true
	case structure:
		if named == "time.Time" {
			wall := m.simplify(p[0].(*Term))
			ext := m.simplify(p[1].(*Term))
			if wall.IsConst() && ext.IsConst() {
				if loc, _ := p[2].(*value); loc == nil {
					if wall.U == 0 && ext.Int() == 0 {
						return time.Time{}, true
					}
					return time.Unix(ext.Int()-unixToInternal, int64(wall.U)).UTC(), true
				}
				return time.Unix(ext.Int()-unixToInternal, int64(wall.U)).UTC(), true
			}
		}
	}
	return nil, false
}

func sumToString(fr *frame, a []value) value {
	m := fr.m
	v := a[1].(iface)
	if v.t != nil {
		if s, ok := v.v.(Str); ok {
			return s
		}
		if t, ok := v.v.(*Term); ok && t.S.K == KBool {
			// "true"/"false": keep symbolic booleans exact by forking
			if m.branch(t) {
				return mkStr("true")
			}
			return mkStr("false")
		}
	}
	if sl, ok := v.v.([]value); ok && len(sl) == 0 && v.t != nil {
		return mkStr("") // an empty list formats as the empty string
	}
	if v.t != nil && v.t == m.prog.rtErrType {
		return v.v.(Str)
	}
	if n, ok := m.toNative(v); ok {
		if _, isTime := n.(time.Time); isTime {
			return Str{Opaque: true, OTag: "tostring(" + valueTag(v) + ")"} // zone-dependent formatting
		}
		return mkStr(cconv.StringConverter.ToString(n))
	}
	tag := "tostring(" + valueTag(v) + ")"
	if t, ok := v.v.(*Term); ok && t.S.K == KBV && v.t != nil {
		if b, isB := v.t.Underlying().(*types.Basic); isB && isInteger(b) {
			// the decimal text of an integer: parsing it back gives the integer
			w, signed := intWidth(b)
			if signed || w < 64 {
				if m.intText == nil {
					m.intText = map[string]*Term{}
				}
				m.intText[tag] = m.ctx.Resize(t, 64, signed)
			}
		}
	}
	return Str{Opaque: true, OTag: tag}
}

// textOfInt: the integer whose decimal text this (purely opaque) string is, if known.
func (m *Machine) textOfInt(s Str) (*Term, bool) {
	if !s.Opaque || len(s.R) != 0 {
		return nil, false
	}
	t, ok := m.intText[s.OTag]
	return t, ok
}

// valueTag describes an interface payload for the identity of opaque text.
func valueTag(v iface) string {
	if v.t == nil {
		return "nil"
	}
	switch p := v.v.(type) {
	case *Term:
		return typeString(v.t) + ":" + p.SMT()
	case Str:
		return "str:" + p.repr()
	case structure:
		var sb strings.Builder
		sb.WriteString(typeString(v.t) + "{")
		for _, f := range p {
			if t, ok := f.(*Term); ok {
				sb.WriteString(t.SMT() + ",")
			} else {
				sb.WriteString(fmt.Sprintf("%p,", f))
			}
		}
		return sb.String() + "}"
	case []value:
		if len(p) == 0 {
			return typeString(v.t) + "[]"
		}
		return fmt.Sprintf("%s[%p/%d]", typeString(v.t), &p[0], len(p))
	case *value:
		return fmt.Sprintf("%s@%p", typeString(v.t), p)
	}
	return fmt.Sprintf("%s:%T", typeString(v.t), v.v)
}

func sumConv(kind string) extFn {
	return func(fr *frame, a []value) value {
		m := fr.m
		n, ok := m.toNative(a[1])
		if ok {
			switch kind {
			case "int":
				return mkInt(64, int64(cconv.IntegerConverter.ToInteger(n)))
			case "long":
				return mkInt(64, cconv.LongConverter.ToLong(n))
			case "float":
				return mkFP(32, float64(cconv.FloatConverter.ToFloat(n)))
			case "double":
				return mkFP(64, cconv.DoubleConverter.ToDouble(n))
			case "bool":
				return mkBool(cconv.BooleanConverter.ToBoolean(n))
			case "duration":
				return mkInt(64, int64(cconv.DurationConverter.ToDuration(n)))
			case "datetime":
				t := cconv.DateTimeConverter.ToDateTime(n)
				if t.IsZero() {
					return structure{mkBV(64, 0), mkInt(64, 0), (*value)(nil)}
				}
				return m.mkTime(mkInt(64, t.Unix()), mkInt(64, int64(t.Nanosecond())))
			}
		}
		// symbolic input: an arbitrary value of the result type (a total function of the
		// argument: converting the same text twice gives the same value)
		var key string
		if iv, isI := a[1].(iface); isI {
			if sv, isS := iv.v.(Str); isS && (kind == "long" || kind == "int") {
				if t, known := m.textOfInt(sv); known {
					return t
				}
			}
			key = "conv." + kind + "|" + valueTag(iv)
			if r, hit := m.stubMemo[key]; hit {
				return r
			}
		}
		name := m.nondetName("conv." + kind)
		var res value
		switch kind {
		case "int", "long", "duration":
			res = m.ctx.Var(name, SBV64)
		case "float":
			res = m.ctx.Var(name, SF32)
		case "double":
			res = m.ctx.Var(name, SF64)
		case "bool":
			res = m.ctx.Var(name, SBool)
		default:
			sec := m.ctx.Var(name, SBV64)
			res = m.mkTime(sec, mkInt(64, 0))
		}
		if key != "" {
			if m.stubMemo == nil {
				m.stubMemo = map[string]value{}
			}
			m.stubMemo[key] = res
		}
		return res
	}
}

func sumParseInt(fr *frame, a []value) value {
	m := fr.m
	base := m.concretize(a[1].(*Term), 4, "ParseInt base")
	bits := m.concretize(a[2].(*Term), 4, "ParseInt bitSize")
	errT := m.prog.rtErrType
	if gs, ok := a[0].(Str).Concrete(); ok {
		v, err := strconv.ParseInt(gs, int(base), int(bits))
		if err != nil {
			return tuple{mkInt(64, v), iface{t: errT, v: mkStr(err.Error())}}
		}
		return tuple{mkInt(64, v), iface{}}
	}
	if t, ok := m.textOfInt(a[0].(Str)); ok && base == 10 && (bits == 64 || bits == 0) {
		return tuple{t, iface{}}
	}
	// symbolic text: either it parses to some value or it does not (a function of the
	// text: parsing the same text twice gives the same answer)
	key := fmt.Sprintf("ParseInt|%s|%d|%d", a[0].(Str).repr(), base, bits)
	if r, hit := m.stubMemo[key]; hit {
		return r
	}
	if m.stubMemo == nil {
		m.stubMemo = map[string]value{}
	}
	okv := m.ctx.Var(m.nondetName("strconv.ParseInt.ok"), SBool)
	var res value
	if m.branch(okv) {
		res = tuple{m.ctx.Var(m.nondetName("strconv.ParseInt.val"), SBV64), iface{}}
	} else {
		res = tuple{mkInt(64, 0), iface{t: errT, v: Str{Opaque: true, OTag: "parse-error"}}}
	}
	m.stubMemo[key] = res
	return res
}

// (time.Time).Sub for wall-clock times without monotonic reading and with
// concrete nanosecond parts: the exact difference, saturated to the Duration range.
func sumTimeSub(fr *frame, a []value) value {
	m := fr.m
	c := m.ctx
	t, u := a[0].(structure), a[1].(structure)
	tw, uw := m.simplify(t[0].(*Term)), m.simplify(u[0].(*Term))
	// wall fields produced by the engine hold the nanoseconds only (no monotonic reading)
	for _, w := range []*Term{tw, uw} {
		if w.IsConst() && w.U>>30 != 0 {
			panic(unsupported("time.Time.Sub with a monotonic or foreign wall field"))
		}
	}
	dn := c.Sub(tw, uw) // in (-1e9, 1e9)
	ts, us := t[1].(*Term), u[1].(*Term)
	diff := c.Sub(ts, us)
	const maxSec = 9223372036 // floor((2^63-1)/1e9)
	exact := c.Add(c.Mul(diff, mkInt(64, 1000000000)), dn)
	sat := c.Ite(c.Slt(diff, mkInt(64, 0)), mkInt(64, -1<<63), mkInt(64, 1<<63-1))
	// strictly inside the representable range the difference is exact
	if m.branch(c.And(c.Slt(mkInt(64, -maxSec), diff), c.Slt(diff, mkInt(64, maxSec)))) {
		return exact
	}
	if m.branch(c.Or(c.Eq(diff, mkInt(64, maxSec)), c.Eq(diff, mkInt(64, -maxSec)))) {
		d := m.simplify(dn)
		if d.IsConst() && d.Int() == 0 {
			return exact // whole seconds: still exact at the last representable second
		}
		panic(unsupported("time.Time.Sub at the saturation edge with sub-second parts"))
	}
	return sat
}

func unicodeIsDigit(r rune) bool { return unicode.IsDigit(r) }

func sumHasSuffix(fr *frame, a []value) value {
	m := fr.m
	s, p := a[0].(Str), a[1].(Str)
	if len(p.R) > len(s.R) {
		return falseT
	}
	return m.strEq(Str{R: s.R[len(s.R)-len(p.R):]}, p)
}

func sumTrimPrefix(fr *frame, a []value) value {
	m := fr.m
	s, p := a[0].(Str), a[1].(Str)
	if len(p.R) > len(s.R) {
		return s
	}
	if m.branch(m.strEq(Str{R: s.R[:len(p.R)]}, p)) {
		return Str{R: s.R[len(p.R):]}
	}
	return s
}

func sumTrimSuffix(fr *frame, a []value) value {
	m := fr.m
	s, p := a[0].(Str), a[1].(Str)
	if len(p.R) > len(s.R) {
		return s
	}
	if m.branch(m.strEq(Str{R: s.R[len(s.R)-len(p.R):]}, p)) {
		return Str{R: s.R[:len(s.R)-len(p.R)]}
	}
	return s
}

func sumContainsRune(fr *frame, a []value) value {
	m := fr.m
	c := m.ctx
	s, r := a[0].(Str), a[1].(*Term)
	m.needConcreteStr(s, "strings.ContainsRune")
	var res *Term = falseT
	for _, x := range s.R {
		res = c.Or(res, c.Eq(x, r))
	}
	return res
}

func sumEqualFold(fr *frame, a []value) value {
	m := fr.m
	x, y := a[0].(Str), a[1].(Str)
	// simple folding via upper-then-lower mapping (exact for the characters whose fold orbit has two members)
	return m.strEq(m.caseMap(m.caseMap(x, true), false), m.caseMap(m.caseMap(y, true), false))
}

// strings.Index: byte offset of the first occurrence (forks per candidate position)
func sumIndex(fr *frame, a []value) value {
	m := fr.m
	c := m.ctx
	s, sub := a[0].(Str), a[1].(Str)
	m.needConcreteStr(s, "strings.Index")
	m.needConcreteStr(sub, "strings.Index")
	var off *Term = mkInt(64, 0)
	for i := 0; i+len(sub.R) <= len(s.R); i++ {
		if m.branch(m.strEq(Str{R: s.R[i : i+len(sub.R)]}, sub)) {
			return off
		}
		off = c.Add(off, m.utf8Len(s.R[i]))
	}
	return mkInt(64, -1)
}

// IndexByte(s, c): byte-level search (forks on the encoded length of symbolic
// runes and on each comparison).
func sumIndexByte(fr *frame, a []value) value {
	m := fr.m
	s := a[0].(Str)
	m.needConcreteStr(s, "strings.IndexByte")
	b := m.simplify(a[1].(*Term))
	if b.IsConst() && b.U < 0x80 {
		return sumIndex(fr, []value{s, Str{R: []*Term{mkBV(32, b.U)}}})
	}
	bs := m.strBytes(s)
	for i, x := range bs {
		if m.branch(m.ctx.Eq(x, b)) {
			return mkInt(64, int64(i))
		}
	}
	return mkInt(64, -1)
}

func sumContainsAny(fr *frame, a []value) value {
	m := fr.m
	c := m.ctx
	s, chars := a[0].(Str), a[1].(Str)
	m.needConcreteStr(s, "strings.ContainsAny")
	m.needConcreteStr(chars, "strings.ContainsAny")
	var res *Term = falseT
	for _, x := range s.R {
		for _, y := range chars.R {
			res = c.Or(res, c.Eq(x, y))
		}
	}
	return res
}


// deepEqual: structural equality of two run-time values (pointers are followed,
// like reflect.DeepEqual); the result is a Bool term.
func (m *Machine) deepEqual(x, y value, seen map[[2]*value]bool) *Term {
	c := m.ctx
	switch x := x.(type) {
	case *Term:
		yt, ok := y.(*Term)
		if !ok || yt.S != x.S {
			return falseT
		}
		if x.S.K == KFP {
			return c.Or(c.Eq(x, yt), c.And(c.FIsNaN(x), c.FIsNaN(yt)))
		}
		return c.Eq(x, yt)
	case Str:
		ys, ok := y.(Str)
		if !ok {
			return falseT
		}
		return m.strEq(x, ys)
	case *value:
		yp, ok := y.(*value)
		if !ok {
			return falseT
		}
		if x == yp {
			return trueT
		}
		if x == nil || yp == nil {
			return falseT
		}
		k := [2]*value{x, yp}
		if seen[k] {
			return trueT
		}
		seen[k] = true
		return m.deepEqual(*x, *yp, seen)
	case structure:
		ys, ok := y.(structure)
		if !ok || len(ys) != len(x) {
			return falseT
		}
		r := trueT
		for i := range x {
			r = c.And(r, m.deepEqual(x[i], ys[i], seen))
		}
		return r
	case array:
		ys, ok := y.(array)
		if !ok || len(ys) != len(x) {
			return falseT
		}
		r := trueT
		for i := range x {
			r = c.And(r, m.deepEqual(x[i], ys[i], seen))
		}
		return r
	case []value:
		ys, ok := y.([]value)
		if !ok || len(ys) != len(x) || (x == nil) != (ys == nil) {
			return falseT
		}
		r := trueT
		for i := range x {
			r = c.And(r, m.deepEqual(x[i], ys[i], seen))
		}
		return r
	case iface:
		yi, ok := y.(iface)
		if !ok {
			return falseT
		}
		if x.t == nil || yi.t == nil {
			if x.t == nil && yi.t == nil {
				return trueT
			}
			return falseT
		}
		if !types.Identical(x.t, yi.t) {
			return falseT
		}
		return m.deepEqual(x.v, yi.v, seen)
	case *MapV:
		ym, ok := y.(*MapV)
		if !ok || (x == nil) != (ym == nil) {
			return falseT
		}
		if x == ym {
			return trueT
		}
		panic(unsupported("vSameState over maps"))
	case nil:
		if y == nil {
			return trueT
		}
		return falseT
	}
	if x == y {
		return trueT
	}
	panic(unsupported(fmt.Sprintf("vSameState over %T", x)))
}
