package main

import (
	"strconv"
	"unicode/utf8"
	"fmt"
	"go/types"
	"unicode"
)

func (m *Machine) needConcreteStr(s Str, what string) {
	if s.Opaque {
		panic(unsupported("opaque string used in " + what))
	}
}

// opaqueBool: the outcome of comparing text produced by a formatting stub is not
// modelled: an arbitrary boolean (assertions that depend on it cannot be replayed and
// are reported as inconclusive, never as violations).
func (m *Machine) opaqueBool(key string) *Term {
	if m.opaqueMemo == nil {
		m.opaqueMemo = map[string]*Term{}
	}
	if t, ok := m.opaqueMemo[key]; ok {
		return t
	}
	t := m.ctx.Var(m.nondetName("opaque.compare"), SBool)
	m.opaqueMemo[key] = t
	return t
}

// intTextEq: the decimal text of integer t equals the concrete string s.
func (m *Machine) intTextEq(t *Term, s string) *Term {
	v, err := strconv.ParseInt(s, 10, 64)
	if err != nil || strconv.FormatInt(v, 10) != s {
		return falseT // not the canonical decimal spelling of any integer
	}
	return m.ctx.Eq(t, mkInt(64, v))
}

func (m *Machine) strEq(a, b Str) *Term {
	// the decimal text of a symbolic integer compares exactly
	if ta, ok := m.textOfInt(a); ok {
		if tb, ok2 := m.textOfInt(b); ok2 {
			return m.ctx.Eq(ta, tb)
		}
		if s, ok2 := b.Concrete(); ok2 {
			return m.intTextEq(ta, s)
		}
	} else if tb, ok := m.textOfInt(b); ok {
		if s, ok2 := a.Concrete(); ok2 {
			return m.intTextEq(tb, s)
		}
	}
	if a.Opaque || b.Opaque {
		x, y := a.repr(), b.repr()
		if x == y {
			return trueT
		}
		if y < x {
			x, y = y, x
		}
		return m.opaqueBool("eq|" + x + "|" + y)
	}
	if len(a.R) != len(b.R) {
		return falseT
	}
	c := m.ctx
	var res *Term = trueT
	for i := range a.R {
		res = c.And(res, c.Eq(a.R[i], b.R[i]))
		if res.IsConst() && !res.Bool() {
			return falseT
		}
	}
	return res
}

// strLess: lexicographic order by code point (== byte order for valid UTF-8).
func (m *Machine) strLess(a, b Str, orEq bool) *Term {
	if a.Opaque || b.Opaque {
		x, y := a.repr(), b.repr()
		if x == y {
			return mkBool(orEq)
		}
		// a < b and b <= a are complementary
		if y < x {
			return m.ctx.Not(m.opaqueBool(fmt.Sprintf("lt|%v|%s|%s", !orEq, y, x)))
		}
		return m.opaqueBool(fmt.Sprintf("lt|%v|%s|%s", orEq, x, y))
	}
	c := m.ctx
	n := len(a.R)
	if len(b.R) < n {
		n = len(b.R)
	}
	// tail: result when the common prefix is equal
	var res *Term
	if len(a.R) < len(b.R) {
		res = trueT
	} else if len(a.R) > len(b.R) {
		res = falseT
	} else {
		res = mkBool(orEq)
	}
	for i := n - 1; i >= 0; i-- {
		x, y := a.R[i], b.R[i]
		res = c.Ite(c.Eq(x, y), res, c.Ult(x, y))
	}
	return res
}

// Pseudo-runes: a byte that is not part of a complete UTF-8 sequence (the result of
// cutting a string inside a multi-byte character) is represented as 0x110000 + byte.
const pseudoBase = 0x110000

func (m *Machine) utf8Len(r *Term) *Term {
	c := m.ctx
	if r.IsConst() {
		v := r.U
		switch {
		case v >= pseudoBase:
			return mkInt(64, 1)
		case v < 0x80:
			return mkInt(64, 1)
		case v < 0x800:
			return mkInt(64, 2)
		case v < 0x10000:
			return mkInt(64, 3)
		}
		return mkInt(64, 4)
	}
	last := mkInt(64, 4)
	if !r.Valid {
		last = c.Ite(c.Ult(r, mkBV(32, pseudoBase)), mkInt(64, 4), mkInt(64, 1))
	}
	return c.Ite(c.Ult(r, mkBV(32, 0x80)), mkInt(64, 1),
		c.Ite(c.Ult(r, mkBV(32, 0x800)), mkInt(64, 2),
			c.Ite(c.Ult(r, mkBV(32, 0x10000)), mkInt(64, 3), last)))
}

// byteOrig: the term is byte j of the n-byte encoding of rune r (on this path).
type byteOrig struct {
	r    *Term
	j, n int
}

// runeBytes returns the UTF-8 bytes (BV8 terms) of rune r, forking on its length class.
func (m *Machine) runeBytes(r *Term) []*Term {
	out := m.runeBytes0(r)
	if !r.IsConst() {
		if m.byteOrigin == nil {
			m.byteOrigin = map[*Term]byteOrig{}
		}
		for j, b := range out {
			if !b.IsConst() {
				if _, dup := m.byteOrigin[b]; !dup {
					m.byteOrigin[b] = byteOrig{r, j, len(out)}
				}
			}
		}
	}
	return out
}

func (m *Machine) runeBytes0(r *Term) []*Term {
	c := m.ctx
	n := m.concretize(m.utf8Len(r), 4, "UTF-8 length of a rune")
	r = m.simplify(r)
	b := func(t *Term) *Term { return c.Resize(t, 8, false) }
	sh := func(k uint64) *Term { return c.LShr(r, mkBV(32, k)) }
	cont := func(t *Term) *Term { return c.BOr(c.BAnd(b(t), mkBV(8, 0x3F)), mkBV(8, 0x80)) }
	switch n {
	case 1:
		if r.IsConst() && r.U >= pseudoBase {
			return []*Term{mkBV(8, r.U-pseudoBase)}
		}
		// a valid 1-byte rune, or a pseudo-rune (low byte is the byte itself)
		return []*Term{b(r)}
	case 2:
		return []*Term{c.BOr(b(sh(6)), mkBV(8, 0xC0)), cont(r)}
	case 3:
		return []*Term{c.BOr(b(sh(12)), mkBV(8, 0xE0)), cont(sh(6)), cont(r)}
	}
	return []*Term{c.BOr(b(sh(18)), mkBV(8, 0xF0)), cont(sh(12)), cont(sh(6)), cont(r)}
}

// bytesToStr turns a byte sequence into a rune-string: bytes that are, in
// order, the complete encoding of one rune (constant bytes by decoding,
// symbolic ones by their recorded origin) become that rune; any other byte
// stays a lone byte (pseudo-rune).
func (m *Machine) bytesToStr(bs []*Term) Str {
	var out []*Term
	i := 0
	for i < len(bs) {
		b := m.simplify(bs[i])
		if b.IsConst() {
			// maximal constant run
			j := i
			var raw []byte
			for j < len(bs) {
				t := m.simplify(bs[j])
				if !t.IsConst() {
					break
				}
				raw = append(raw, byte(t.U))
				j++
			}
			// an incomplete sequence at the end of the run stays lone bytes
			for k := 0; k < len(raw); {
				r, sz := utf8.DecodeRune(raw[k:])
				if r == utf8.RuneError && sz <= 1 {
					out = append(out, mkBV(32, pseudoBase+uint64(raw[k])))
					k++
					continue
				}
				out = append(out, mkBV(32, uint64(uint32(r))))
				k += sz
			}
			i = j
			continue
		}
		if o, ok := m.byteOrigin[bs[i]]; ok && o.j == 0 && i+o.n <= len(bs) {
			all := true
			for k := 1; k < o.n; k++ {
				o2, ok2 := m.byteOrigin[bs[i+k]]
				if !ok2 || o2.r != o.r || o2.j != k || o2.n != o.n {
					all = false
					break
				}
			}
			if all {
				out = append(out, o.r)
				i += o.n
				continue
			}
		}
		out = append(out, m.pseudoRune(bs[i]))
		i++
	}
	return Str{R: out}
}

func (m *Machine) pseudoRune(b *Term) *Term {
	t := m.ctx.Add(mkBV(32, pseudoBase), m.ctx.Resize(b, 32, false))
	if !t.IsConst() {
		if m.pseudoOf == nil {
			m.pseudoOf = map[*Term]*Term{}
		}
		m.pseudoOf[t] = b
	}
	return t
}

// loneByte: the byte term of a lone-byte pseudo-rune.
func (m *Machine) loneByte(t *Term) (*Term, bool) {
	if t.IsConst() {
		if t.U >= pseudoBase {
			return mkBV(8, t.U-pseudoBase), true
		}
		return nil, false
	}
	b, ok := m.pseudoOf[t]
	return b, ok
}

// joinStr concatenates two rune-strings; lone bytes that meet at the seam are
// re-fused into the character they complete.
func (m *Machine) joinStr(a, b Str) Str {
	i := len(a.R)
	var bs []*Term
	for i > 0 && len(a.R)-i < 3 {
		ob, ok := m.loneByte(a.R[i-1])
		if !ok {
			break
		}
		bs = append([]*Term{ob}, bs...)
		i--
	}
	j := 0
	nl := len(bs)
	if nl > 0 {
		for j < len(b.R) && j < 3 {
			ob, ok := m.loneByte(b.R[j])
			if !ok {
				break
			}
			bs = append(bs, ob)
			j++
		}
	}
	out := make([]*Term, 0, len(a.R)+len(b.R))
	if nl > 0 && j > 0 {
		out = append(out, a.R[:i]...)
		out = append(out, m.bytesToStr(bs).R...)
		out = append(out, b.R[j:]...)
	} else {
		out = append(out, a.R...)
		out = append(out, b.R...)
	}
	return Str{R: out}
}

// appendByte appends one byte to a rune-string, re-fusing it with the lone
// bytes that end the string when together they complete a character.
func (m *Machine) appendByte(s Str, b *Term) Str {
	k := len(s.R)
	var bs []*Term
	for k > 0 && len(s.R)-k < 3 {
		t := s.R[k-1]
		if t.IsConst() && t.U >= pseudoBase {
			bs = append([]*Term{mkBV(8, t.U-pseudoBase)}, bs...)
		} else if ob, ok := m.pseudoOf[t]; ok {
			bs = append([]*Term{ob}, bs...)
		} else {
			break
		}
		k--
	}
	bs = append(bs, b)
	tail := m.bytesToStr(bs)
	out := make([]*Term, 0, k+len(tail.R))
	out = append(out, s.R[:k]...)
	out = append(out, tail.R...)
	return Str{R: out}
}

// strSlice implements s[lo:hi] with byte offsets on a rune-string.
func (m *Machine) strSlice(fr *frame, s Str, lo, hi int64) Str {
	m.needConcreteStr(s, "slicing")
	var out []*Term
	off := int64(0)
	for _, r := range s.R {
		if off >= hi {
			break
		}
		n := m.concretize(m.utf8Len(r), 4, "UTF-8 length of a rune")
		end := off + n
		switch {
		case end <= lo:
			// entirely before the slice
		case off >= lo && end <= hi:
			out = append(out, r)
		default:
			// the cut falls inside this character: keep the covered bytes
			bs := m.runeBytes(r)
			for i, b := range bs {
				p := off + int64(i)
				if p >= lo && p < hi {
					out = append(out, m.pseudoRune(b))
				}
			}
		}
		off = end
	}
	if hi > off || lo > hi || lo < 0 {
		m.rtPanic(fr, fmt.Sprintf("slice bounds out of range [%d:%d] with length %d", lo, hi, off))
	}
	return Str{R: out}
}

// strBytes returns all bytes of s (forking on the length class of symbolic runes).
func (m *Machine) strBytes(s Str) []*Term {
	m.needConcreteStr(s, "byte access")
	var out []*Term
	for _, r := range s.R {
		out = append(out, m.runeBytes(r)...)
	}
	return out
}

func (m *Machine) strLen(s Str) *Term {
	m.needConcreteStr(s, "len")
	c := m.ctx
	var res *Term = mkInt(64, 0)
	for _, r := range s.R {
		res = c.Add(res, m.utf8Len(r))
	}
	return res
}

func (m *Machine) strIndex(fr *frame, s Str, idx *Term) value {
	if gs, ok := s.Concrete(); ok && idx.IsConst() {
		i := idx.Int()
		if i < 0 || i >= int64(len(gs)) {
			m.rtPanic(fr, fmt.Sprintf("index out of range [%d] with length %d", i, len(gs)))
		}
		return mkBV(8, uint64(gs[i]))
	}
	i := m.concretize(m.ctx.Resize(idx, 64, true), 16, "string index")
	bs := m.strBytes(s)
	if i < 0 || i >= int64(len(bs)) {
		m.rtPanic(fr, fmt.Sprintf("index out of range [%d] with length %d", i, len(bs)))
	}
	return bs[i]
}

// ---------------------------------------------------------------------
// case mapping: exact tables generated from package unicode.

type caseSeg struct {
	lo, hi rune
	delta  rune
	step   int  // 1: every code point; 2: alternate pairs
	parity rune // for step 2: code points with (r-lo)%2 == parity are shifted by delta
}

var upperSegs, lowerSegs []caseSeg

func buildCaseSegs(f func(rune) rune) []caseSeg {
	var segs []caseSeg
	delta := func(r rune) rune {
		if r >= 0xD800 && r <= 0xDFFF {
			return 0
		}
		return f(r) - r
	}
	r := rune(0x80)
	for r <= 0x10FFFF {
		d := delta(r)
		if d == 0 {
			r++
			continue
		}
		// constant run
		e := r
		for e+1 <= 0x10FFFF && delta(e+1) == d {
			e++
		}
		if e > r {
			segs = append(segs, caseSeg{lo: r, hi: e, delta: d, step: 1})
			r = e + 1
			continue
		}
		// alternating run: r, r+2, r+4 ... shifted by d, the ones in between unchanged
		e = r
		for e+2 <= 0x10FFFF && delta(e+2) == d && delta(e+1) == 0 {
			e += 2
		}
		segs = append(segs, caseSeg{lo: r, hi: e, delta: d, step: 2})
		r = e + 1
	}
	return segs
}

var upperPre, lowerPre map[rune][]rune

func init() {
	upperSegs = buildCaseSegs(unicode.ToUpper)
	lowerSegs = buildCaseSegs(unicode.ToLower)
	upperPre, lowerPre = map[rune][]rune{}, map[rune][]rune{}
	for r := rune(0); r <= 0x10FFFF; r++ {
		if r >= 0xD800 && r <= 0xDFFF {
			continue
		}
		if u := unicode.ToUpper(r); u != r {
			upperPre[u] = append(upperPre[u], r)
		}
		if l := unicode.ToLower(r); l != r {
			lowerPre[l] = append(lowerPre[l], r)
		}
	}
	casePreimage = func(name string, k rune) ([]rune, bool) {
		var pre map[rune][]rune
		var f func(rune) rune
		switch name {
		case "go_toupper":
			pre, f = upperPre, unicode.ToUpper
		case "go_tolower":
			pre, f = lowerPre, unicode.ToLower
		default:
			return nil, false
		}
		out := append([]rune{}, pre[k]...)
		if f(k) == k {
			out = append(out, k) // k maps to itself
		}
		return out, true
	}
}

func caseDefineFun(name string, segs []caseSeg, asciiLo, asciiHi rune, asciiDelta int32) string {
	// (define-fun name ((r (_ BitVec 32))) (_ BitVec 32) ...)
	body := "r"
	for i := len(segs) - 1; i >= 0; i-- {
		s := segs[i]
		var cond string
		if s.lo == s.hi {
			cond = fmt.Sprintf("(= r %s)", bvLit(32, uint64(uint32(s.lo))))
		} else {
			cond = fmt.Sprintf("(and (bvule %s r) (bvule r %s))", bvLit(32, uint64(uint32(s.lo))), bvLit(32, uint64(uint32(s.hi))))
			if s.step == 2 {
				// every second code point, starting at lo
				cond = fmt.Sprintf("(and %s (= ((_ extract 0 0) (bvsub r %s)) #b0))", cond, bvLit(32, uint64(uint32(s.lo))))
			}
		}
		body = fmt.Sprintf("(ite %s (bvadd r %s) %s)", cond, bvLit(32, uint64(uint32(s.delta))), body)
	}
	body = fmt.Sprintf("(ite (bvult r #x00000080) (ite (and (bvule %s r) (bvule r %s)) (bvadd r %s) r) %s)",
		bvLit(32, uint64(uint32(asciiLo))), bvLit(32, uint64(uint32(asciiHi))), bvLit(32, uint64(uint32(asciiDelta))), body)
	return fmt.Sprintf("(define-fun %s ((r (_ BitVec 32))) (_ BitVec 32) %s)\n", name, body)
}

func solverPrelude() string {
	return caseDefineFun("go_toupper", upperSegs, 'a', 'z', -32) +
		caseDefineFun("go_tolower", lowerSegs, 'A', 'Z', 32)
}

func (m *Machine) caseMap(s Str, upper bool) Str {
	m.needConcreteStr(s, "ToUpper/ToLower")
	out := make([]*Term, len(s.R))
	for i, r := range s.R {
		if r.IsConst() {
			v := rune(int32(r.U))
			if upper {
				v = unicode.ToUpper(v)
			} else {
				v = unicode.ToLower(v)
			}
			out[i] = mkBV(32, uint64(uint32(v)))
			continue
		}
		out[i] = m.caseMapRune(r, upper)
	}
	return Str{R: out}
}

// ---------------------------------------------------------------------
// growslice: the capacity the Go runtime gives to append, obtained from
// the runtime the engine itself runs on (same toolchain as the tests).

func growNative[T any](ln, cp, add int) int {
	s := make([]T, ln, cp)
	s = append(s, make([]T, add)...)
	return cap(s)
}

type p1 = *byte
type ps2 = [2]*byte
type ps3 = [3]*byte
type ps4 = [4]*byte
type ps5 = [5]*byte
type ps6 = [6]*byte
type ps8 = [8]*byte

func hasPointers(t types.Type) bool {
	switch t := t.Underlying().(type) {
	case *types.Basic:
		return t.Info()&types.IsString != 0 || t.Kind() == types.UnsafePointer
	case *types.Struct:
		for i := 0; i < t.NumFields(); i++ {
			if hasPointers(t.Field(i).Type()) {
				return true
			}
		}
		return false
	case *types.Array:
		return t.Len() > 0 && hasPointers(t.Elem())
	}
	return true
}

func (p *Program) growCap(et types.Type, ln, cp, add int) int {
	size := p.sizes.Sizeof(et)
	if hasPointers(et) {
		switch size {
		case 8:
			return growNative[p1](ln, cp, add)
		case 16:
			return growNative[ps2](ln, cp, add)
		case 24:
			return growNative[ps3](ln, cp, add)
		case 32:
			return growNative[ps4](ln, cp, add)
		case 40:
			return growNative[ps5](ln, cp, add)
		case 48:
			return growNative[ps6](ln, cp, add)
		case 64:
			return growNative[ps8](ln, cp, add)
		}
	} else {
		switch size {
		case 0:
			return growNative[struct{}](ln, cp, add)
		case 1:
			return growNative[int8](ln, cp, add)
		case 2:
			return growNative[int16](ln, cp, add)
		case 4:
			return growNative[int32](ln, cp, add)
		case 8:
			return growNative[int64](ln, cp, add)
		case 16:
			return growNative[[2]int64](ln, cp, add)
		case 24:
			return growNative[[3]int64](ln, cp, add)
		case 32:
			return growNative[[4]int64](ln, cp, add)
		}
	}
	panic(unsupported(fmt.Sprintf("append growth for element size %d", size)))
}

func (m *Machine) caseMapRune(r *Term, upper bool) *Term {
	c := m.ctx
	if r.IsConst() {
		v := rune(int32(r.U))
		if upper {
			v = unicode.ToUpper(v)
		} else {
			v = unicode.ToLower(v)
		}
		return mkBV(32, uint64(uint32(v)))
	}
	// push through ite (keyword letters with a symbolic case bit fold to constants)
	if r.Op == OIte {
		a, b := m.caseMapRune(r.A[1], upper), m.caseMapRune(r.A[2], upper)
		t := c.Ite(r.A[0], a, b)
		if !t.IsConst() {
			t.Valid = true
		}
		return t
	}
	// ASCII by the known bounds: plain arithmetic
	if v, ok := m.varOf(r); ok && v == r {
		b := m.getBounds(v)
		if b[0] >= 0 && b[1] < 0x80 {
			lo, hi, d := int64('a'), int64('z'), uint64(0xFFFFFFE0)
			if !upper {
				lo, hi, d = 'A', 'Z', 32
			}
			if b[1] < lo || b[0] > hi {
				return r
			}
			t := c.Ite(c.And(c.Ule(mkBV(32, uint64(lo)), r), c.Ule(r, mkBV(32, uint64(hi)))), c.Add(r, mkBV(32, d)), r)
			t.Valid = true
			return t
		}
	}
	name := "go_tolower"
	if upper {
		name = "go_toupper"
	}
	t := c.UF(name, SBV32, r)
	t.Valid = true
	return t
}
