package main

// Machine: the state of one explored path (path condition, decision
// trace, bookkeeping) plus the decision procedure interface.

import (
	"fmt"
	"go/types"
	"sort"
	"strings"

	"golang.org/x/tools/go/ssa"
)

type Violation struct {
	Sig     string            // assertion id | panic@site | budget@site
	Msg     string            // detail (panic message)
	Model   map[string]uint64 // raw bits per nondet name
	Choices map[string]int64
	Trace   []int
	Harness string
}

type PathResult struct {
	Outcome     string // done | assume | panic | budget | unsupported | asserted-false
	Detail      string
	Steps       int64
	Violations  []*Violation
	AssertReach map[string]int
	Forks       [][]int // new prefixes to explore
	Unknowns    int
	Funcs       map[*ssa.Function]struct{}
	Sample      map[string]uint64 // model of the completed path (witness), optional
	Trace       []int
	Leads       []string
	Narrowed    int
	choicesCopy map[string]int64
}

type Machine struct {
	byteOrigin map[*Term]byteOrig // byte terms produced by runeBytes: which byte of which rune
	pseudoOf   map[*Term]*Term    // lone-byte pseudo-rune -> its byte term
	prog    *Program
	ctx     *Ctx
	solver  *Solver
	pc      []*Term
	bind    map[*Term]*Term
	prefix  []int
	cursor  int
	trace   []int
	steps   int64
	budget  int64
	res     *PathResult
	globals map[*ssa.Global]*value
	params  map[string]int
	occ     map[string]int
	choices map[string]int64
	harness string
	depth   int
	// violation sampling control (shared across paths, read-only snapshot)
	wantModel func(sig string) bool
	// write-set monitor (C19)
	wsActive bool
	wsEpoch  int64
	allocSeq int64
	cellBorn map[*value]int64
	wsHits   []string
	simpMemo map[*Term]*Term
	simpGen  int
	bindGen  int
	callStack []*ssa.Function
	timeLocal *value
	lastNow   *Term
	freshMaps map[*MapV]bool
	bounds    map[*Term][2]int64 // signed interval implied by the path condition, per variable
	opaqueMemo map[string]*Term
	intText    map[string]*Term // opaque decimal text of a symbolic integer -> that integer (BV64)
	stubMemo   map[string]value // results of value-returning stubs: the same argument gives the same result
}

func (m *Machine) fail(kind, detail string) {
	panic(pathEnd{kind + ": " + detail})
}

// simplify substitutes variables bound to constants by the path condition.
func (m *Machine) simplify(t *Term) *Term {
	if t.IsConst() || len(m.bind) == 0 {
		return t
	}
	if m.simpGen != m.bindGen {
		m.simpMemo = map[*Term]*Term{}
		m.simpGen = m.bindGen
	}
	return m.subst(t)
}

func (m *Machine) subst(t *Term) *Term {
	if t.IsConst() {
		return t
	}
	if r, ok := m.simpMemo[t]; ok {
		return r
	}
	var r *Term
	if t.Op == OVar {
		if b, ok := m.bind[t]; ok {
			r = b
		} else {
			r = t
		}
	} else {
		changed := false
		na := make([]*Term, len(t.A))
		for i, a := range t.A {
			na[i] = m.subst(a)
			if na[i] != a {
				changed = true
			}
		}
		if !changed {
			r = t
		} else {
			r = m.ctx.Rebuild(t, na)
		}
	}
	m.simpMemo[t] = r
	return r
}

func (m *Machine) addPC(c *Term) {
	if c.IsConst() {
		return
	}
	m.pc = append(m.pc, c)
	m.noteBinding(c)
}

// varOf peels sign/zero extensions off a variable; ok only when the
// extension preserves the signed value given the known bounds.
func (m *Machine) varOf(t *Term) (*Term, bool) {
	switch t.Op {
	case OVar:
		if t.S.K == KBV {
			return t, true
		}
	case OSExt:
		if t.A[0].Op == OVar {
			return t.A[0], true
		}
	case OZExt:
		if t.A[0].Op == OVar {
			if b, ok := m.bounds[t.A[0]]; ok && b[0] >= 0 {
				return t.A[0], true
			}
		}
	}
	return nil, false
}

func (m *Machine) getBounds(v *Term) [2]int64 {
	if b, ok := m.bounds[v]; ok {
		return b
	}
	w := uint(v.S.W)
	if w >= 64 {
		return [2]int64{-1 << 63, 1<<63 - 1}
	}
	return [2]int64{-(1 << (w - 1)), 1<<(w-1) - 1}
}

// cmpForm recognises cond as (x op k) or (k op x) with x a variable:
// returns v, lo, hi such that cond <=> lo <= v <= hi, when it has that shape.
func (m *Machine) cmpForm(c *Term) (v *Term, lo, hi int64, ok bool) {
	neg := false
	if c.Op == ONot {
		neg = true
		c = c.A[0]
	}
	const minI, maxI = int64(-1 << 63), int64(1<<63 - 1)
	switch c.Op {
	case OSlt, OSle, OUlt, OUle, OEq:
	default:
		return nil, 0, 0, false
	}
	a, b := c.A[0], c.A[1]
	var k int64
	varLeft := true
	if b.IsConst() {
		v, ok = m.varOf(a)
		k = b.Int()
	} else if a.IsConst() {
		v, ok = m.varOf(b)
		k = a.Int()
		varLeft = false
	}
	if !ok {
		return nil, 0, 0, false
	}
	if c.Op == OUlt || c.Op == OUle {
		// unsigned comparison coincides with signed when both sides are known non-negative
		if k < 0 || m.getBounds(v)[0] < 0 {
			return nil, 0, 0, false
		}
	}
	lo, hi = minI, maxI
	strict := c.Op == OSlt || c.Op == OUlt
	switch {
	case c.Op == OEq:
		if neg {
			return nil, 0, 0, false
		}
		return v, k, k, true
	case varLeft && !neg: // v < k | v <= k
		hi = k
		if strict {
			if k == minI {
				return nil, 0, 0, false
			}
			hi = k - 1
		}
	case varLeft && neg: // v >= k | v > k
		lo = k
		if !strict {
			if k == maxI {
				return nil, 0, 0, false
			}
			lo = k + 1
		}
	case !varLeft && !neg: // k < v | k <= v
		lo = k
		if strict {
			if k == maxI {
				return nil, 0, 0, false
			}
			lo = k + 1
		}
	default: // !(k < v) => v <= k ; !(k <= v) => v < k
		hi = k
		if !strict {
			if k == minI {
				return nil, 0, 0, false
			}
			hi = k - 1
		}
	}
	return v, lo, hi, true
}

// boundsDecide decides cond from the per-variable intervals when possible.
func (m *Machine) boundsDecide(c *Term) (val bool, decided bool) {
	v, lo, hi, ok := m.cmpForm(c)
	if !ok {
		return false, false
	}
	b := m.getBounds(v)
	if b[0] >= lo && b[1] <= hi {
		return true, true
	}
	if b[1] < lo || b[0] > hi {
		return false, true
	}
	return false, false
}

func (m *Machine) noteBounds(c *Term) {
	if c.Op == OAnd {
		m.noteBounds(c.A[0])
		m.noteBounds(c.A[1])
		return
	}
	v, lo, hi, ok := m.cmpForm(c)
	if !ok {
		return
	}
	b := m.getBounds(v)
	if lo > b[0] {
		b[0] = lo
	}
	if hi < b[1] {
		b[1] = hi
	}
	m.bounds[v] = b
	if b[0] == b[1] {
		m.bind[v] = mkInt(v.S.W, b[0])
		m.bindGen++
	}
}

func (m *Machine) noteBinding(c *Term) {
	m.noteBounds(c)
	switch c.Op {
	case OEq:
		if c.A[0].Op == OVar && c.A[1].IsConst() {
			m.bind[c.A[0]] = c.A[1]
			m.bindGen++
		}
	case OAnd:
		m.noteBinding(c.A[0])
		m.noteBinding(c.A[1])
	case OVar:
		if c.S.K == KBool {
			m.bind[c] = trueT
			m.bindGen++
		}
	case ONot:
		if c.A[0].Op == OVar {
			m.bind[c.A[0]] = falseT
			m.bindGen++
		}
	}
}

func (m *Machine) check(q *Term, wantModel bool) (string, map[string]uint64) {
	res, model := m.solver.Check(m.pc, q, wantModel, m.ctx.vars)
	if res == "unknown" {
		// The solver gave up at full width. A model found under narrowed value ranges is still a
		// model of the original query (sat is sat); "unsat" under narrowing proves nothing, so
		// the answer then stays unknown and the run is reported inconclusive.
		if r2, m2 := m.checkNarrowed(q, wantModel); r2 == "sat" {
			m.res.Narrowed++
			return "sat", m2
		}
	}
	if res == "unknown" || res == "error" {
		m.res.Unknowns++
	}
	return res, model
}

// checkNarrowed re-asks pc ∧ q with every wide integer variable confined to [-4096, 4096]
// (one-shot solving): a bug-hunting fallback for queries bit-blasting cannot finish.
func (m *Machine) checkNarrowed(q *Term, wantModel bool) (string, map[string]uint64) {
	c := m.ctx
	pc := append([]*Term(nil), m.pc...)
	n := 0
	for _, v := range c.vars {
		if v.S.K == KBV && v.S.W >= 32 && !v.Valid {
			w := v.S.W
			pc = append(pc, c.And(c.Sle(mkInt(w, -4096), v), c.Sle(v, mkInt(w, 4096))))
			n++
		}
	}
	if n == 0 {
		return "unknown", nil
	}
	return m.solver.CheckOneShot(pc, q, wantModel, c.vars)
}

// decide resolves an n-way symbolic decision whose alternatives have the
// given conditions. It returns the alternative taken on this path.
func (m *Machine) decide(conds []*Term) int {
	n := len(conds)
	if m.cursor < len(m.prefix) {
		d := m.prefix[m.cursor]
		m.cursor++
		m.trace = append(m.trace, d)
		if d >= n {
			panic(fmt.Sprintf("engine: replayed decision %d out of %d alternatives (nondeterministic re-execution)", d, n))
		}
		m.addPC(conds[d])
		return d
	}
	var feas []int
	for i, c := range conds {
		if c.IsConst() {
			if c.Bool() {
				feas = append(feas, i)
			}
			continue
		}
		// the last alternative is feasible without a query when none of the
		// others is and the conditions are exhaustive (binary branch)
		if n == 2 && i == 1 && len(feas) == 0 && conds[0].Op != OConst {
			feas = append(feas, i)
			continue
		}
		r, _ := m.check(c, false)
		if r != "unsat" {
			feas = append(feas, i)
		}
	}
	if len(feas) == 0 {
		// path condition itself became infeasible (should not happen)
		m.fail("infeasible", "no feasible alternative")
	}
	base := append([]int(nil), m.trace...)
	for _, alt := range feas[1:] {
		p := append(append([]int(nil), base...), alt)
		m.res.Forks = append(m.res.Forks, p)
	}
	d := feas[0]
	m.cursor++
	m.trace = append(m.trace, d)
	m.addPC(conds[d])
	return d
}

// branch decides a boolean condition.
func (m *Machine) branch(cond *Term) bool {
	if cond.IsConst() {
		return cond.Bool()
	}
	cond = m.simplify(cond)
	if cond.IsConst() {
		return cond.Bool()
	}
	if v, ok := m.boundsDecide(cond); ok {
		return v
	}
	d := m.decide([]*Term{cond, m.ctx.Not(cond)})
	return d == 0
}

// concretize forces an integer term to a concrete value by forking over
// its feasible values (at most limit of them).
func (m *Machine) concretize(t *Term, limit int, what string) int64 {
	t = m.simplify(t)
	if t.IsConst() {
		return t.Int()
	}
	if m.cursor < len(m.prefix) {
		// value recorded in the trace as the decision payload
		d := m.prefix[m.cursor]
		m.cursor++
		m.trace = append(m.trace, d)
		m.addPC(m.ctx.Eq(t, mkInt(t.S.W, int64(d))))
		return int64(d)
	}
	var vals []int64
	var excl *Term = trueT
	for len(vals) <= limit {
		r, model := m.solver.Check(m.pc, excl, true, m.ctx.vars)
		if r != "sat" {
			if r != "unsat" {
				m.res.Unknowns++
			}
			break
		}
		asg := model
		v, ok := evalTerm(t, asg, map[*Term]uint64{})
		if !ok {
			panic(unsupported("concretize: cannot evaluate " + what))
		}
		sv := mkBV(t.S.W, v).Int()
		vals = append(vals, sv)
		excl = m.ctx.And(excl, m.ctx.Not(m.ctx.Eq(t, mkInt(t.S.W, sv))))
	}
	if len(vals) > limit {
		panic(unsupported(fmt.Sprintf("concretize %s: more than %d feasible values", what, limit)))
	}
	if len(vals) == 0 {
		m.fail("infeasible", "concretize")
	}
	sort.Slice(vals, func(i, j int) bool { return vals[i] < vals[j] })
	base := append([]int(nil), m.trace...)
	for _, v := range vals[1:] {
		m.res.Forks = append(m.res.Forks, append(append([]int(nil), base...), int(v)))
	}
	m.cursor++
	m.trace = append(m.trace, int(vals[0]))
	m.addPC(m.ctx.Eq(t, mkInt(t.S.W, vals[0])))
	return vals[0]
}

func (m *Machine) assume(c *Term) {
	c = m.simplify(c)
	if c.IsConst() {
		if !c.Bool() {
			panic(pathEnd{"assume"})
		}
		return
	}
	if m.cursor >= len(m.prefix) {
		r, _ := m.check(c, false)
		if r == "unsat" {
			panic(pathEnd{"assume"})
		}
	}
	m.addPC(c)
}

func (m *Machine) violation(sig, msg string, q *Term) {
	v := &Violation{Sig: sig, Msg: msg, Harness: m.harness, Trace: append([]int(nil), m.trace...)}
	if m.wantModel == nil || m.wantModel(sig) {
		r, model := m.solver.Check(m.pc, q, true, m.ctx.vars)
		if r == "unknown" {
			r, model = m.checkNarrowed(q, true)
		}
		if r == "sat" {
			if model == nil {
				model = map[string]uint64{}
			}
			v.Model = model
			v.Choices = map[string]int64{}
			for k, x := range m.choices {
				v.Choices[k] = x
			}
		}
	}
	m.res.Violations = append(m.res.Violations, v)
}

func (m *Machine) assert(c *Term, id string) {
	m.res.AssertReach[id]++
	c = m.simplify(c)
	if c.IsConst() {
		if c.Bool() {
			return
		}
		if m.cursor >= len(m.prefix) {
			m.violation(id, "", nil)
		}
		panic(pathEnd{"asserted-false"})
	}
	if m.cursor >= len(m.prefix) {
		nc := m.ctx.Not(c)
		r, _ := m.check(nc, false)
		if r == "sat" {
			m.violation(id, "", nc)
			// is the assertion satisfiable at all on this path?
			r2, _ := m.check(c, false)
			if r2 == "unsat" {
				panic(pathEnd{"asserted-false"})
			}
		}
	}
	m.addPC(c)
}

func (m *Machine) nondetName(name string) string {
	k := m.occ[name]
	m.occ[name] = k + 1
	return fmt.Sprintf("%s#%d", name, k)
}

func siteName(fn *ssa.Function) string {
	if fn == nil {
		return "?"
	}
	s := fn.String()
	return s
}

func typeString(t types.Type) string {
	return types.TypeString(t, nil)
}

func shortPkg(s string) string {
	return strings.ReplaceAll(s, "github.com/pip-services3-gox/pip-services3-expressions-gox/", "")
}
