package main

// One long-lived SMT solver process (z3 -in by default) per worker.
// The path condition is kept asserted incrementally (one push level per
// conjunct); every query is (push)(assert q)(check-sat)(pop).

import (
	"bufio"
	"fmt"
	"io"
	"math"
	"os"
	"os/exec"
	"strconv"
	"strings"
	"sync/atomic"
	"time"
)

type SolverStats struct {
	Queries  int64
	Sat      int64
	Unsat    int64
	Unknown  int64
	Errors   int64
	TimeNs   int64
	Restarts int64
	IntQueries int64
}

var gStats SolverStats

type Solver struct {
	kind     string // z3 | z3-new | cvc5
	cmd      *exec.Cmd
	in       io.WriteCloser
	out      *bufio.Reader
	declared map[string]string
	asserted []*Term
	nq       int
	timeout  int // ms
	prelude  string
	log      io.Writer
	intReady bool
	intProc  *Solver
	flagMemo map[*Term]int
	BoundsOf func(*Term) ([2]int64, bool)
}

func solverArgv(kind string) []string {
	switch kind {
	case "z3-new":
		return []string{"z3-new", "-in"}
	case "cvc5":
		return []string{"cvc5", "--incremental", "--produce-models", "--lang=smt2"}
	default:
		return []string{"z3", "-in"}
	}
}

func NewSolver(kind string, timeoutMs int, prelude string) *Solver {
	s := &Solver{kind: kind, timeout: timeoutMs, prelude: prelude}
	if f := os.Getenv("VERIF_SOLVER_LOG"); f != "" {
		s.log, _ = os.OpenFile(f, os.O_CREATE|os.O_APPEND|os.O_WRONLY, 0o644)
	}
	s.start()
	return s
}

func (s *Solver) start() {
	argv := solverArgv(s.kind)
	s.cmd = exec.Command(argv[0], argv[1:]...)
	in, err := s.cmd.StdinPipe()
	if err != nil {
		panic(err)
	}
	out, err := s.cmd.StdoutPipe()
	if err != nil {
		panic(err)
	}
	s.cmd.Stderr = os.Stderr
	if err := s.cmd.Start(); err != nil {
		panic(fmt.Sprintf("cannot start solver %v: %v", argv, err))
	}
	s.in = in
	s.out = bufio.NewReaderSize(out, 1<<16)
	s.declared = map[string]string{}
	s.asserted = nil
	s.nq = 0
	s.intReady = false
	if s.kind == "cvc5" {
		s.send("(set-logic ALL)\n(set-option :global-declarations true)\n")
		s.send(fmt.Sprintf("(set-option :tlimit-per %d)\n", s.timeout))
	} else {
		s.send("(set-option :global-declarations true)\n")
		s.send(fmt.Sprintf("(set-option :timeout %d)\n", s.timeout))
	}
	if s.prelude != "" {
		s.send(s.prelude)
		s.declared["uf:go_toupper"] = "uf"
		s.declared["uf:go_tolower"] = "uf"
	}
	lines := s.sync()
	for _, l := range lines {
		if strings.HasPrefix(l, "(error") {
			panic("solver prelude error: " + l)
		}
	}
}

func (s *Solver) Close() {
	if s.intProc != nil {
		s.intProc.Close()
		s.intProc = nil
	}
	if s.cmd != nil {
		s.in.Close()
		s.cmd.Process.Kill()
		s.cmd.Wait()
		s.cmd = nil
	}
}

func (s *Solver) restart() {
	s.Close()
	atomic.AddInt64(&gStats.Restarts, 1)
	s.start()
}

func (s *Solver) send(str string) {
	if s.log != nil {
		io.WriteString(s.log, str)
	}
	if _, err := io.WriteString(s.in, str); err != nil {
		panic(fmt.Sprintf("solver write: %v", err))
	}
}

// sync sends an echo marker and returns all output lines before it.
func (s *Solver) sync() []string {
	s.send("(echo \"#SYNC#\")\n")
	var lines []string
	for {
		l, err := s.out.ReadString('\n')
		if err != nil {
			panic(fmt.Sprintf("solver read: %v (lines so far %v)", err, lines))
		}
		l = strings.TrimRight(l, "\r\n")
		if l == "#SYNC#" || l == "\"#SYNC#\"" {
			return lines
		}
		if l != "" {
			lines = append(lines, l)
		}
	}
}

func (s *Solver) declare(t *Term, sb *strings.Builder) {
	seen := map[*Term]bool{}
	var vars, ufs []*Term
	collectVars(t, seen, &vars, &ufs)
	for _, v := range vars {
		srt := v.S.SMT()
		key := v.Name + sortTag(v.S)
		if _, ok := s.declared[key]; ok {
			continue
		}
		s.declared[key] = srt
		fmt.Fprintf(sb, "(declare-const %s %s)\n", smtName(v), srt)
	}
	for _, u := range ufs {
		if _, ok := s.declared["uf:"+u.Name]; ok {
			continue
		}
		s.declared["uf:"+u.Name] = "uf"
		var as []string
		for _, a := range u.A {
			as = append(as, a.S.SMT())
		}
		fmt.Fprintf(sb, "(declare-fun %s (%s) %s)\n", u.Name, strings.Join(as, " "), u.S.SMT())
	}
}

// Reset drops all asserted path-condition levels.
func (s *Solver) Reset() {
	if len(s.asserted) > 0 {
		s.send(fmt.Sprintf("(pop %d)\n", len(s.asserted)))
		s.asserted = s.asserted[:0]
	}
	s.flagMemo = nil
	if s.nq > 20000 {
		s.restart()
	}
}

// Check decides satisfiability of pc ∧ q. With wantModel the values of
// vars are returned (raw bits) when the answer is sat.
func (s *Solver) Check(pc []*Term, q *Term, wantModel bool, vars []*Term) (string, map[string]uint64) {
	// multiplication / division kernels: try the integer encoding first
	if s.flagMemo == nil {
		s.flagMemo = map[*Term]int{}
	}
	fl := 0
	for _, c := range pc {
		fl |= termFlags(c, s.flagMemo)
	}
	if q != nil {
		fl |= termFlags(q, s.flagMemo)
	}
	if fl&fHard != 0 && fl&fNoInt == 0 {
		t0 := time.Now()
		res, model := s.CheckInt(pc, q, wantModel)
		s.nq++
		atomic.AddInt64(&gStats.Queries, 1)
		atomic.AddInt64(&gStats.IntQueries, 1)
		atomic.AddInt64(&gStats.TimeNs, int64(time.Since(t0)))
		switch res {
		case "sat":
			atomic.AddInt64(&gStats.Sat, 1)
			return res, model
		case "unsat":
			atomic.AddInt64(&gStats.Unsat, 1)
			return res, model
		case "error":
			s.restart()
		}
		// unknown: fall back to the bit-vector encoding
	} else if fl&fHardFP != 0 {
		t0 := time.Now()
		res, model := s.CheckOneShot(pc, q, wantModel, vars)
		s.nq++
		atomic.AddInt64(&gStats.Queries, 1)
		atomic.AddInt64(&gStats.IntQueries, 1)
		atomic.AddInt64(&gStats.TimeNs, int64(time.Since(t0)))
		switch res {
		case "sat":
			atomic.AddInt64(&gStats.Sat, 1)
			return res, model
		case "unsat":
			atomic.AddInt64(&gStats.Unsat, 1)
			return res, model
		case "error":
			s.intProc.Close()
			s.intProc = nil
		}
	}
	t1 := time.Now()
	res, model := s.checkBV(pc, q, wantModel, vars)
	if d := time.Since(t1); d > 5*time.Second && os.Getenv("VERIF_VERBOSE") != "" {
		qs := ""
		if q != nil {
			qs = q.SMT()
		}
		if len(qs) > 600 {
			qs = qs[:600]
		}
		fmt.Fprintf(os.Stderr, "SLOW QUERY %.1fs res=%s pc=%d q=%s\n", d.Seconds(), res, len(pc), qs)
	}
	return res, model
}

func (s *Solver) checkBV(pc []*Term, q *Term, wantModel bool, vars []*Term) (string, map[string]uint64) {
	t0 := time.Now()
	var sb strings.Builder
	// synchronise asserted prefix
	k := 0
	for k < len(s.asserted) && k < len(pc) && s.asserted[k] == pc[k] {
		k++
	}
	if k < len(s.asserted) {
		fmt.Fprintf(&sb, "(pop %d)\n", len(s.asserted)-k)
		s.asserted = s.asserted[:k]
	}
	for ; k < len(pc); k++ {
		s.declare(pc[k], &sb)
		fmt.Fprintf(&sb, "(push 1)\n(assert %s)\n", pc[k].SMT())
		s.asserted = append(s.asserted, pc[k])
	}
	if q != nil {
		s.declare(q, &sb)
		fmt.Fprintf(&sb, "(push 1)\n(assert %s)\n", q.SMT())
	}
	sb.WriteString("(check-sat)\n")
	s.send(sb.String())
	lines := s.sync()
	res := "unknown"
	for _, l := range lines {
		if strings.HasPrefix(l, "(error") {
			res = "error"
			fmt.Fprintf(os.Stderr, "SOLVER ERROR: %s\n", l)
			break
		}
		if l == "sat" || l == "unsat" || l == "unknown" {
			res = l
		}
	}
	var model map[string]uint64
	if res == "sat" && wantModel && len(vars) > 0 {
		var gb strings.Builder
		gb.WriteString("(get-value (")
		n := 0
		for _, v := range vars {
			if _, ok := s.declared[v.Name+sortTag(v.S)]; ok {
				gb.WriteString(smtName(v))
				gb.WriteByte(' ')
				n++
			}
		}
		gb.WriteString("))\n")
		if n > 0 {
			s.send(gb.String())
			out := strings.Join(s.sync(), " ")
			model = parseModel(out)
		} else {
			model = map[string]uint64{}
		}
	}
	if q != nil {
		s.send("(pop 1)\n")
	}
	s.nq++
	atomic.AddInt64(&gStats.Queries, 1)
	atomic.AddInt64(&gStats.TimeNs, int64(time.Since(t0)))
	switch res {
	case "sat":
		atomic.AddInt64(&gStats.Sat, 1)
	case "unsat":
		atomic.AddInt64(&gStats.Unsat, 1)
	case "unknown":
		atomic.AddInt64(&gStats.Unknown, 1)
	default:
		atomic.AddInt64(&gStats.Errors, 1)
		s.restart()
	}
	return res, model
}

// ---- model parsing ----

type sexp struct {
	atom string
	list []*sexp
}

func parseSexp(s string, i *int) *sexp {
	for *i < len(s) && (s[*i] == ' ' || s[*i] == '\n' || s[*i] == '\t') {
		*i++
	}
	if *i >= len(s) {
		return nil
	}
	if s[*i] == '(' {
		*i++
		e := &sexp{list: []*sexp{}}
		for {
			for *i < len(s) && (s[*i] == ' ' || s[*i] == '\n' || s[*i] == '\t') {
				*i++
			}
			if *i >= len(s) {
				return e
			}
			if s[*i] == ')' {
				*i++
				return e
			}
			e.list = append(e.list, parseSexp(s, i))
		}
	}
	st := *i
	if s[*i] == '|' {
		*i++
		for *i < len(s) && s[*i] != '|' {
			*i++
		}
		*i++
		return &sexp{atom: s[st+1 : *i-1]}
	}
	for *i < len(s) && s[*i] != ' ' && s[*i] != ')' && s[*i] != '(' && s[*i] != '\n' {
		*i++
	}
	return &sexp{atom: s[st:*i]}
}

func bitsOfLit(a string) (uint64, int, bool) {
	if strings.HasPrefix(a, "#x") {
		v, err := strconv.ParseUint(a[2:], 16, 64)
		return v, 4 * (len(a) - 2), err == nil
	}
	if strings.HasPrefix(a, "#b") {
		v, err := strconv.ParseUint(a[2:], 2, 64)
		return v, len(a) - 2, err == nil
	}
	return 0, 0, false
}

func parseModel(out string) map[string]uint64 {
	m := map[string]uint64{}
	i := 0
	e := parseSexp(out, &i)
	if e == nil {
		return m
	}
	for _, p := range e.list {
		if p == nil || len(p.list) != 2 {
			continue
		}
		name := stripSortTag(p.list[0].atom)
		v := p.list[1]
		if v.atom != "" {
			switch v.atom {
			case "true":
				m[name] = 1
			case "false":
				m[name] = 0
			default:
				if b, _, ok := bitsOfLit(v.atom); ok {
					m[name] = b
				}
			}
			continue
		}
		// (fp s e m) | (_ +zero e s) | (_ bvN w) ...
		if len(v.list) == 4 && v.list[0].atom == "fp" {
			sg, _, _ := bitsOfLit(v.list[1].atom)
			ex, ew, _ := bitsOfLit(v.list[2].atom)
			mn, mw, _ := bitsOfLit(v.list[3].atom)
			m[name] = sg<<uint(ew+mw) | ex<<uint(mw) | mn
			continue
		}
		if len(v.list) == 4 && v.list[0].atom == "_" {
			eb, _ := strconv.Atoi(v.list[2].atom)
			var f float64
			switch v.list[1].atom {
			case "+zero":
				f = 0
			case "-zero":
				f = math.Copysign(0, -1)
			case "+oo":
				f = math.Inf(1)
			case "-oo":
				f = math.Inf(-1)
			case "NaN":
				f = math.NaN()
			}
			if eb == 8 {
				m[name] = uint64(math.Float32bits(float32(f)))
			} else {
				m[name] = math.Float64bits(f)
			}
			continue
		}
		if len(v.list) == 3 && v.list[0].atom == "_" && strings.HasPrefix(v.list[1].atom, "bv") {
			b, _ := strconv.ParseUint(v.list[1].atom[2:], 10, 64)
			m[name] = b
		}
	}
	return m
}
