package main

// Exhaustive exploration of all feasible paths of one harness by
// stateless re-execution with recorded decision prefixes.

import (
	"fmt"
	"os"
	"runtime/debug"
	"sort"
	"strings"
	"sync"
	"time"

	"golang.org/x/tools/go/ssa"
)

type VioAgg struct {
	Sig   string
	Count int
	First *Violation
	Msg   string
	More  []*Violation
}

type HarnessResult struct {
	Name        string
	Pkg         string
	Params      map[string]int
	Paths       int
	Outcomes    map[string]int
	Steps       int64
	Violations  map[string]*VioAgg
	AssertReach map[string]int
	Unknowns    int
	Unsupported map[string]int
	EngineErrs  []string
	Funcs       map[string]struct{}
	Samples     []map[string]interface{}
	Witness     *Violation // a completed path with model, for the reachability replay
	Witnesses   []*Violation
	WallS       float64
	MaxPaths    int
	Truncated   bool
	Leads       map[string]int
	Narrowed    int
}

type ExploreOpts struct {
	Workers    int
	Budget     int64
	MaxPaths   int
	SolverKind string
	TimeoutMs  int
	Deadline   time.Time
	Verbose    bool
}

type workItem struct{ prefix []int }

func explore(p *Program, pkg *ssa.Package, fnName string, params map[string]int, opts ExploreOpts) *HarnessResult {
	t0 := time.Now()
	fn := pkg.Func(fnName)
	hr := &HarnessResult{Name: fnName, Pkg: pkg.Pkg.Path(), Params: params, Outcomes: map[string]int{}, Violations: map[string]*VioAgg{},
		AssertReach: map[string]int{}, Unsupported: map[string]int{}, Funcs: map[string]struct{}{}, Leads: map[string]int{}}
	if fn == nil {
		hr.EngineErrs = append(hr.EngineErrs, "harness function not found: "+fnName)
		return hr
	}
	var mu sync.Mutex
	cond := sync.NewCond(&mu)
	work := []workItem{{prefix: nil}}
	active := 0
	stop := false
	modelCount := map[string]int{}
	wantModel := func(sig string) bool {
		mu.Lock()
		defer mu.Unlock()
		modelCount[sig]++
		return modelCount[sig] <= 3
	}
	var wg sync.WaitGroup
	prelude := solverPrelude()
	for w := 0; w < opts.Workers; w++ {
		wg.Add(1)
		go func(wid int) {
			defer wg.Done()
			solver := NewSolver(opts.SolverKind, opts.TimeoutMs, prelude)
			defer solver.Close()
			for {
				mu.Lock()
				for len(work) == 0 && active > 0 && !stop {
					cond.Wait()
				}
				if stop || (len(work) == 0 && active == 0) {
					mu.Unlock()
					cond.Broadcast()
					return
				}
				it := work[len(work)-1]
				work = work[:len(work)-1]
				active++
				mu.Unlock()

				res := runPath(p, pkg, fn, params, it.prefix, solver, opts, wantModel)

				mu.Lock()
				active--
				hr.Paths++
				hr.Outcomes[res.Outcome]++
				hr.Steps += res.Steps
				hr.Unknowns += res.Unknowns
				hr.Narrowed += res.Narrowed
				for k, v := range res.AssertReach {
					hr.AssertReach[k] += v
				}
				for f := range res.Funcs {
					hr.Funcs[f.String()] = struct{}{}
				}
				for _, l := range res.Leads {
					hr.Leads[l]++
				}
				switch res.Outcome {
				case "unsupported":
					hr.Unsupported[res.Detail]++
				case "engine-error":
					if len(hr.EngineErrs) < 5 {
						hr.EngineErrs = append(hr.EngineErrs, res.Detail)
					}
				}
				for _, v := range res.Violations {
					a := hr.Violations[v.Sig]
					if a == nil {
						a = &VioAgg{Sig: v.Sig, Msg: v.Msg}
						hr.Violations[v.Sig] = a
					}
					a.Count++
					if v.Model != nil {
						if a.First == nil {
							a.First = v
						} else if len(a.More) < 2 {
							a.More = append(a.More, v)
						}
					}
				}
				if res.Outcome == "done" && res.Sample != nil {
					if hr.Witness == nil {
						hr.Witness = &Violation{Sig: "<done>", Model: res.Sample, Choices: res.choicesCopy, Harness: fnName}
					}
					if len(hr.Witnesses) < 3 {
						hr.Witnesses = append(hr.Witnesses, &Violation{Sig: "<done>", Model: res.Sample, Choices: res.choicesCopy, Harness: fnName})
					}
					if len(hr.Samples) < 3 {
						hr.Samples = append(hr.Samples, map[string]interface{}{
							"harness": fnName, "outcome": "done", "decisions": len(res.Trace), "model": modelForJSON(res.Sample, res.choicesCopy)})
					}
				}
				for _, f := range res.Forks {
					work = append(work, workItem{prefix: f})
				}
				if opts.MaxPaths > 0 && hr.Paths >= opts.MaxPaths {
					stop = true
					hr.Truncated = true
				}
				if !opts.Deadline.IsZero() && time.Now().After(opts.Deadline) {
					stop = true
					hr.Truncated = true
				}
				if opts.Verbose && hr.Paths%2000 == 0 {
					fmt.Fprintf(os.Stderr, "  [%s] paths=%d queue=%d vio=%d q=%d\n", fnName, hr.Paths, len(work), len(hr.Violations), gStats.Queries)
				}
				mu.Unlock()
				cond.Broadcast()
			}
		}(w)
	}
	wg.Wait()
	hr.WallS = time.Since(t0).Seconds()
	return hr
}

func modelForJSON(model map[string]uint64, choices map[string]int64) map[string]interface{} {
	out := map[string]interface{}{}
	keys := make([]string, 0, len(model))
	for k := range model {
		keys = append(keys, k)
	}
	sort.Strings(keys)
	for _, k := range keys {
		out[k] = model[k]
	}
	for k, v := range choices {
		out[k] = v
	}
	return out
}

func runPath(p *Program, pkg *ssa.Package, fn *ssa.Function, params map[string]int, prefix []int, solver *Solver, opts ExploreOpts, wantModel func(string) bool) (res *PathResult) {
	solver.Reset()
	m := &Machine{
		prog: p, ctx: newCtx(), solver: solver, bind: map[*Term]*Term{}, prefix: prefix,
		budget: opts.Budget, globals: map[*ssa.Global]*value{}, params: params, occ: map[string]int{},
		choices: map[string]int64{}, harness: fn.Name(), wantModel: wantModel, simpMemo: map[*Term]*Term{}, bounds: map[*Term][2]int64{},
	}
	res = &PathResult{AssertReach: map[string]int{}, Funcs: map[*ssa.Function]struct{}{}}
	m.res = res
	solver.BoundsOf = func(v *Term) ([2]int64, bool) {
		b, ok := m.bounds[v]
		return b, ok
	}
	defer func() {
		res.Steps = m.steps
		res.Trace = m.trace
		if r := recover(); r != nil {
			switch r := r.(type) {
			case pathEnd:
				switch {
				case r.reason == "assume":
					res.Outcome = "assume"
				case r.reason == "asserted-false":
					res.Outcome = "asserted-false"
				case strings.HasPrefix(r.reason, "budget"):
					res.Outcome = "budget"
					res.Detail = r.reason
					if m.cursor >= len(m.prefix) {
						m.violation("budget@"+shortPkg(strings.TrimPrefix(r.reason, "budget: ")), r.reason, nil)
					}
				default:
					res.Outcome = "infeasible"
					res.Detail = r.reason
				}
			case targetPanic:
				res.Outcome = "panic"
				res.Detail = r.site + ": " + r.msg
				if m.cursor >= len(m.prefix) {
					m.violation("panic@"+shortPkg(r.site), r.msg, nil)
				}
			case unsupportedErr:
				res.Outcome = "unsupported"
				res.Detail = r.msg
			default:
				res.Outcome = "engine-error"
				res.Detail = fmt.Sprintf("%v\n%s", r, debug.Stack())
			}
		}
	}()
	// package initialisers of the repository packages (dependency order is
	// taken care of by the init functions themselves)
	if init := pkg.Func("init"); init != nil {
		m.callSSA(nil, init, nil, nil)
	}
	m.callSSA(nil, fn, nil, nil)
	res.Outcome = "done"
	if m.cursor >= len(m.prefix) && res.AssertReach["<done>"] > 0 {
		// sample model of a completed path (first few only; cheap)
		if wantModel("<done>") {
			r, model := solver.Check(m.pc, nil, true, m.ctx.vars)
			if r == "sat" {
				res.Sample = model
				res.choicesCopy = map[string]int64{}
				for k, v := range m.choices {
					res.choicesCopy[k] = v
				}
			}
		}
	}
	return res
}
