package main

// `symgo selftest`: self-validation of the encoder (DESIGN.md 2.6).

import (
	"fmt"
	"math/rand"
	"os"
	"sort"
	"strings"
	"unicode"
)

func evalSegs(segs []caseSeg, r rune, aLo, aHi rune, aDelta rune) rune {
	if r < 0x80 {
		if r >= aLo && r <= aHi {
			return r + aDelta
		}
		return r
	}
	for _, s := range segs {
		if r >= s.lo && r <= s.hi {
			if s.step == 2 && (r-s.lo)%2 != 0 {
				continue
			}
			return r + s.delta
		}
	}
	return r
}

func cmdSelftest(args []string) int {
	fails := 0
	fail := func(f string, a ...interface{}) {
		fails++
		fmt.Printf("SELFTEST FAIL: "+f+"\n", a...)
	}
	// 1. case-mapping tables vs package unicode on every code point
	n := 0
	for r := rune(0); r <= 0x10FFFF; r++ {
		if r >= 0xD800 && r <= 0xDFFF {
			continue
		}
		if evalSegs(upperSegs, r, 'a', 'z', -32) != unicode.ToUpper(r) {
			fail("ToUpper table differs at U+%04X", r)
		}
		if evalSegs(lowerSegs, r, 'A', 'Z', 32) != unicode.ToLower(r) {
			fail("ToLower table differs at U+%04X", r)
		}
		n++
	}
	fmt.Printf("selftest: case tables agree with package unicode on %d code points (%d/%d segments)\n", n, len(upperSegs), len(lowerSegs))
	// 2. preimages
	for k, pre := range upperPre {
		for _, p := range pre {
			if unicode.ToUpper(p) != k {
				fail("upper preimage")
			}
		}
	}
	// 3. folding and the two integer encodings against the solver
	solver := NewSolver(envOr("VERIF_SOLVER", "z3"), 20000, solverPrelude())
	defer solver.Close()
	rng := rand.New(rand.NewSource(int64(seedFromEnv())))
	ctx := newCtx()
	x, y := ctx.Var("sx", SBV64), ctx.Var("sy", SBV64)
	consts := []int64{0, 1, -1, 2, 7, 24, 60, 1000, 1000000, 1 << 31, -(1 << 40), 1<<63 - 1, -1 << 63}
	var gen func(d int) *Term
	gen = func(d int) *Term {
		if d == 0 || rng.Intn(4) == 0 {
			switch rng.Intn(3) {
			case 0:
				return x
			case 1:
				return y
			}
			return mkInt(64, consts[rng.Intn(len(consts))])
		}
		a, b := gen(d-1), gen(d-1)
		switch rng.Intn(6) {
		case 0:
			return ctx.Add(a, b)
		case 1:
			return ctx.Sub(a, b)
		case 2:
			return ctx.Mul(a, mkInt(64, consts[3+rng.Intn(6)]))
		case 3:
			return ctx.SDiv(a, mkInt(64, consts[3+rng.Intn(6)]))
		case 4:
			return ctx.Neg(a)
		}
		return ctx.Ite(ctx.Slt(a, b), a, b)
	}
	agree := 0
	for i := 0; i < 150; i++ {
		t := gen(3)
		cx, cy := consts[rng.Intn(len(consts))]+int64(rng.Intn(5)), consts[rng.Intn(len(consts))]-int64(rng.Intn(5))
		asg := map[string]uint64{"sx": uint64(cx), "sy": uint64(cy)}
		v, ok := evalTerm(t, asg, map[*Term]uint64{})
		if !ok {
			continue
		}
		pc := []*Term{ctx.Eq(x, mkInt(64, cx)), ctx.Eq(y, mkInt(64, cy))}
		q := ctx.Not(ctx.Eq(t, mkBV(64, v)))
		if q.IsConst() {
			if q.Bool() {
				fail("constant folding disagrees with evaluation")
			}
			continue
		}
		rb, _ := solver.checkBV(pc, q, false, nil)
		solver.Reset()
		ri, _ := solver.CheckInt(pc, q, false)
		if rb != "unsat" {
			fail("BV encoding: evaluator and solver disagree on %s (x=%d y=%d): %s", t.SMT(), cx, cy, rb)
		}
		if ri != "unsat" {
			fail("Int encoding: evaluator and solver disagree on %s (x=%d y=%d): %s", t.SMT(), cx, cy, ri)
		}
		agree++
	}
	fmt.Printf("selftest: %d random integer terms: evaluator, BV encoding and Int-with-wrap encoding agree\n", agree)
	// 4. observation harnesses: engine (concrete) vs native
	if len(args) > 0 && args[0] == "quick" {
		if fails > 0 {
			return 2
		}
		return 0
	}
	sc, err := newScratch()
	if err != nil {
		fmt.Println(err)
		return 2
	}
	defer sc.Close()
	rel := "zzverif/self"
	p, pkgs, err := loadProgram([]string{rel}, sc)
	if err != nil {
		fmt.Println("selftest load:", err)
		return 2
	}
	hps, _ := scanHarnessPkgs()
	funcs := append([]string{}, hps[rel].funcs...)
	sort.Strings(funcs)
	var cases []replayCase
	engineObs := map[string]string{}
	var obsFuncs []string
	for _, f := range funcs {
		if strings.HasPrefix(f, "H_sym_") {
			// symbolic self-checks: identities of the string/byte model that must hold on every path
			hr := explore(p, pkgs[rel], f, map[string]int{}, defaultOpts())
			if len(hr.Violations) > 0 || hr.Unknowns > 0 || len(hr.Unsupported) > 0 || len(hr.EngineErrs) > 0 || hr.Outcomes["done"] != hr.Paths {
				fail("symbolic self-check %s: outcomes=%v violations=%d unknown=%d unsupported=%v errors=%v", f, hr.Outcomes, len(hr.Violations), hr.Unknowns, hr.Unsupported, hr.EngineErrs)
			} else {
				fmt.Printf("selftest: %s: %d paths, every identity holds\n", f, hr.Paths)
			}
			continue
		}
		obsFuncs = append(obsFuncs, f)
	}
	funcs = obsFuncs
	for _, f := range funcs {
		fn := pkgs[rel].Func(f)
		res := runPath(p, pkgs[rel], fn, map[string]int{}, nil, solver, defaultOpts(), func(string) bool { return false })
		engineObs[f] = res.Outcome + " ## " + strings.Join(res.Leads, " | ")
		if res.Outcome != "done" {
			fail("engine outcome of %s: %s %s", f, res.Outcome, firstLineOf(res.Detail))
		}
		cases = append(cases, replayCase{Harness: f, Model: map[string]uint64{}, Choices: map[string]int64{}, Params: map[string]int{}})
	}
	outs, err := nativeReplay(rel, cases, false)
	if err != nil {
		fmt.Println("selftest native:", err)
		return 2
	}
	for i, f := range funcs {
		if outs[i] != engineObs[f] {
			fail("observations of %s differ between the engine and the native run", f)
			a, b := strings.Split(engineObs[f], " | "), strings.Split(outs[i], " | ")
			for k := 0; k < len(a) || k < len(b); k++ {
				var x, y string
				if k < len(a) {
					x = a[k]
				}
				if k < len(b) {
					y = b[k]
				}
				if x != y {
					fmt.Printf("   engine: %s\n   native: %s\n", x, y)
					break
				}
			}
		} else {
			fmt.Printf("selftest: %s: %d observations identical in the engine and natively\n", f, strings.Count(outs[i], " | ")+1)
		}
	}
	if fails > 0 {
		fmt.Printf("selftest: %d failures\n", fails)
		return 2
	}
	fmt.Println("selftest: ok")
	return 0
}

func seedFromEnv() int {
	s := 1
	fmt.Sscanf(os.Getenv("VERIF_SEED"), "%d", &s)
	return s
}
