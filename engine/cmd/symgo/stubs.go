package main

func cmdSelftest(args []string) int { return 0 }
