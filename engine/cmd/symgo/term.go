package main

// Term IR: bit-vector / Bool / floating-point expressions over named
// symbolic variables, with constant folding so that concrete execution
// stays concrete. Printed as SMT-LIB2.

import (
	"fmt"
	"math"
	"math/bits"
	"strconv"
	"strings"
)

type Kind uint8

const (
	KBool Kind = iota
	KBV
	KFP
)

type Sort struct {
	K Kind
	W int // BV width, or 32/64 for FP
}

var (
	SBool = Sort{KBool, 0}
	SBV8  = Sort{KBV, 8}
	SBV16 = Sort{KBV, 16}
	SBV32 = Sort{KBV, 32}
	SBV64 = Sort{KBV, 64}
	SF32  = Sort{KFP, 32}
	SF64  = Sort{KFP, 64}
)

func (s Sort) SMT() string {
	switch s.K {
	case KBool:
		return "Bool"
	case KBV:
		return fmt.Sprintf("(_ BitVec %d)", s.W)
	default:
		if s.W == 32 {
			return "(_ FloatingPoint 8 24)"
		}
		return "(_ FloatingPoint 11 53)"
	}
}

type Op uint8

const (
	OConst Op = iota
	OVar
	// bool
	ONot
	OAnd
	OOr
	OIte
	OEq // any sort (fp: structural =, not fp.eq)
	// bv arithmetic
	OAdd
	OSub
	OMul
	OSDiv
	OUDiv
	OSRem
	OURem
	OBAnd
	OBOr
	OBXor
	OBNot
	ONeg
	OShl
	OLShr
	OAShr
	OSlt
	OSle
	OUlt
	OUle
	OSExt    // P0 = extra bits
	OZExt    // P0 = extra bits
	OExtract // P0 = hi, P1 = lo
	// fp
	OFAdd
	OFSub
	OFMul
	OFDiv
	OFNeg
	OFAbs
	OFSqrt
	OFLt
	OFLe
	OFEq
	OFIsNaN
	OFRound  // P0: 0 RTZ, 1 RTN(floor), 2 RTP(ceil), 3 RNA(round half away)
	OFToFP   // fp -> fp of sort S (RNE)
	OSToFP   // signed bv -> fp
	OUToFP   // unsigned bv -> fp
	OFToSBV  // fp -> signed bv (RTZ), total: out-of-range gives MinInt
	OFToUBV  // fp -> unsigned bv (RTZ)
	OUF      // uninterpreted function Name over args
	OFBits   // fp -> bv of same width (not used in queries normally)
)

type Term struct {
	Op    Op
	S     Sort
	A     []*Term
	U     uint64  // const payload for Bool (0/1) and BV (masked)
	F     float64 // const payload for FP (float32 stored widened)
	Name  string  // var / UF name
	P0    int
	P1    int
	Valid bool // rune var known to be a Unicode scalar value
	id    int  // interning id within a Ctx (0 for consts)
	str   string
	size  int
}

func mask(w int) uint64 {
	if w >= 64 {
		return ^uint64(0)
	}
	return (uint64(1) << uint(w)) - 1
}

func (t *Term) IsConst() bool { return t.Op == OConst }

// signed value of a BV const
func (t *Term) Int() int64 {
	w := t.S.W
	if w >= 64 {
		return int64(t.U)
	}
	if t.U&(uint64(1)<<uint(w-1)) != 0 {
		return int64(t.U | ^mask(w))
	}
	return int64(t.U)
}

func (t *Term) Bool() bool { return t.U != 0 }

// casePreimage(name, k): all runes r with name(r) == k, for the case-mapping functions.
var casePreimage func(name string, k rune) ([]rune, bool)

var trueT = &Term{Op: OConst, S: SBool, U: 1}
var falseT = &Term{Op: OConst, S: SBool, U: 0}

func mkBool(b bool) *Term {
	if b {
		return trueT
	}
	return falseT
}

var smallInts [2][300]*Term

func init() {
	for i := range smallInts[0] {
		smallInts[0][i] = &Term{Op: OConst, S: SBV64, U: uint64(i)}
		smallInts[1][i] = &Term{Op: OConst, S: SBV32, U: uint64(i)}
	}
}

func mkBV(w int, v uint64) *Term {
	v &= mask(w)
	if v < 300 {
		if w == 64 {
			return smallInts[0][v]
		}
		if w == 32 {
			return smallInts[1][v]
		}
	}
	return &Term{Op: OConst, S: Sort{KBV, w}, U: v}
}

func mkInt(w int, v int64) *Term { return mkBV(w, uint64(v)) }

func mkFP(w int, f float64) *Term {
	if w == 32 {
		f = float64(float32(f))
	}
	return &Term{Op: OConst, S: Sort{KFP, w}, F: f}
}

// Ctx interns non-constant terms (one Ctx per explored path).
type Ctx struct {
	tab  map[string]*Term
	next int
	vars []*Term // symbolic variables in creation order
	ufs  map[string]*Term
}

func newCtx() *Ctx {
	return &Ctx{tab: map[string]*Term{}, next: 1, ufs: map[string]*Term{}}
}

func (c *Ctx) key(op Op, s Sort, name string, p0, p1 int, a []*Term) string {
	var sb strings.Builder
	sb.WriteByte(byte(op) + 33)
	sb.WriteString(strconv.Itoa(int(s.K)*100 + s.W))
	sb.WriteByte('|')
	sb.WriteString(name)
	sb.WriteByte('|')
	sb.WriteString(strconv.Itoa(p0))
	sb.WriteByte(',')
	sb.WriteString(strconv.Itoa(p1))
	for _, x := range a {
		sb.WriteByte(' ')
		if x.Op == OConst {
			sb.WriteByte('c')
			sb.WriteString(strconv.Itoa(int(x.S.K)*100 + x.S.W))
			sb.WriteByte(':')
			if x.S.K == KFP {
				sb.WriteString(strconv.FormatUint(math.Float64bits(x.F), 16))
			} else {
				sb.WriteString(strconv.FormatUint(x.U, 16))
			}
		} else {
			sb.WriteString(strconv.Itoa(x.id))
		}
	}
	return sb.String()
}

func (c *Ctx) intern(op Op, s Sort, name string, p0, p1 int, a ...*Term) *Term {
	k := c.key(op, s, name, p0, p1, a)
	if t, ok := c.tab[k]; ok {
		return t
	}
	sz := 1
	for _, x := range a {
		if x.Op != OConst {
			sz += x.size
		} else {
			sz++
		}
	}
	t := &Term{Op: op, S: s, A: a, Name: name, P0: p0, P1: p1, id: c.next, size: sz}
	c.next++
	c.tab[k] = t
	return t
}

func (c *Ctx) Var(name string, s Sort) *Term {
	k := c.key(OVar, s, name, 0, 0, nil)
	if t, ok := c.tab[k]; ok {
		return t
	}
	t := c.intern(OVar, s, name, 0, 0)
	c.vars = append(c.vars, t)
	return t
}

func same(a, b *Term) bool {
	if a == b {
		return true
	}
	if a.Op == OConst && b.Op == OConst && a.S == b.S {
		if a.S.K == KFP {
			return math.Float64bits(a.F) == math.Float64bits(b.F)
		}
		return a.U == b.U
	}
	return false
}

// ---------- boolean ----------

func (c *Ctx) Not(a *Term) *Term {
	if a.IsConst() {
		return mkBool(!a.Bool())
	}
	if a.Op == ONot {
		return a.A[0]
	}
	return c.intern(ONot, SBool, "", 0, 0, a)
}

func (c *Ctx) And(a, b *Term) *Term {
	if a.IsConst() {
		if a.Bool() {
			return b
		}
		return falseT
	}
	if b.IsConst() {
		if b.Bool() {
			return a
		}
		return falseT
	}
	if a == b {
		return a
	}
	return c.intern(OAnd, SBool, "", 0, 0, a, b)
}

func (c *Ctx) Or(a, b *Term) *Term {
	if a.IsConst() {
		if a.Bool() {
			return trueT
		}
		return b
	}
	if b.IsConst() {
		if b.Bool() {
			return trueT
		}
		return a
	}
	if a == b {
		return a
	}
	return c.intern(OOr, SBool, "", 0, 0, a, b)
}

func (c *Ctx) Ite(cond, a, b *Term) *Term {
	if cond.IsConst() {
		if cond.Bool() {
			return a
		}
		return b
	}
	if same(a, b) {
		return a
	}
	if a.S.K == KBool {
		if a.IsConst() && b.IsConst() {
			if a.Bool() {
				return cond
			}
			return c.Not(cond)
		}
	}
	t := c.intern(OIte, a.S, "", 0, 0, cond, a, b)
	if a.Valid || (a.IsConst() && a.S == SBV32 && validRune(int64(int32(a.U)))) {
		if b.Valid || (b.IsConst() && b.S == SBV32 && validRune(int64(int32(b.U)))) {
			t.Valid = true
		}
	}
	return t
}

func validRune(r int64) bool {
	return (r >= 0 && r < 0xD800) || (r > 0xDFFF && r <= 0x10FFFF)
}

func (c *Ctx) Eq(a, b *Term) *Term {
	if a.S != b.S {
		panic(fmt.Sprintf("Eq sort mismatch %v %v", a.S, b.S))
	}
	if a.IsConst() && b.IsConst() {
		if a.S.K == KFP {
			return mkBool(math.Float64bits(a.F) == math.Float64bits(b.F))
		}
		return mkBool(a.U == b.U)
	}
	if a == b {
		return trueT
	}
	if a.S.K == KBool {
		if a.IsConst() {
			if a.Bool() {
				return b
			}
			return c.Not(b)
		}
		if b.IsConst() {
			if b.Bool() {
				return a
			}
			return c.Not(a)
		}
	}
	// canonical order: const second
	if a.IsConst() {
		a, b = b, a
	}
	// case mapping compared with a constant: the finite preimage of that constant
	if a.Op == OUF && b.IsConst() && casePreimage != nil {
		if pre, ok := casePreimage(a.Name, rune(int32(b.U))); ok {
			var res *Term = falseT
			for _, p := range pre {
				res = c.Or(res, c.Eq(a.A[0], mkBV(32, uint64(uint32(p)))))
			}
			return res
		}
	}
	// (= (ite c k1 k2) k) folding for constant branches
	if a.Op == OIte && b.IsConst() && a.A[1].IsConst() && a.A[2].IsConst() {
		e1 := same(a.A[1], b)
		e2 := same(a.A[2], b)
		switch {
		case e1 && e2:
			return trueT
		case e1:
			return a.A[0]
		case e2:
			return c.Not(a.A[0])
		default:
			return falseT
		}
	}
	if !b.IsConst() && a.id > b.id {
		a, b = b, a
	}
	return c.intern(OEq, SBool, "", 0, 0, a, b)
}

// ---------- bit-vectors ----------

func (c *Ctx) bin(op Op, a, b *Term) *Term {
	if a.S != b.S {
		panic(fmt.Sprintf("bv binop %d sort mismatch %v %v", op, a.S, b.S))
	}
	w := a.S.W
	if a.IsConst() && b.IsConst() {
		if v, ok := foldBV(op, w, a, b); ok {
			return mkBV(w, v)
		}
	}
	switch op {
	case OAdd:
		if a.IsConst() && a.U == 0 {
			return b
		}
		if b.IsConst() && b.U == 0 {
			return a
		}
		// (x + c1) + c2
		if b.IsConst() && a.Op == OAdd && a.A[1].IsConst() {
			return c.bin(OAdd, a.A[0], mkBV(w, a.A[1].U+b.U))
		}
		if a.IsConst() {
			a, b = b, a
		}
	case OSub:
		if b.IsConst() {
			return c.bin(OAdd, a, mkBV(w, -b.U))
		}
		if a == b {
			return mkBV(w, 0)
		}
	case OMul:
		if a.IsConst() {
			a, b = b, a
		}
		if b.IsConst() {
			if b.U == 0 {
				return mkBV(w, 0)
			}
			if b.U == 1 {
				return a
			}
		}
	case OBAnd:
		if a == b {
			return a
		}
		if b.IsConst() && b.U == 0 || a.IsConst() && a.U == 0 {
			return mkBV(w, 0)
		}
		if b.IsConst() && b.U == mask(w) {
			return a
		}
		if a.IsConst() && a.U == mask(w) {
			return b
		}
	case OBOr:
		if a == b {
			return a
		}
		if b.IsConst() && b.U == 0 {
			return a
		}
		if a.IsConst() && a.U == 0 {
			return b
		}
	case OBXor:
		if a == b {
			return mkBV(w, 0)
		}
		if b.IsConst() && b.U == 0 {
			return a
		}
		if a.IsConst() && a.U == 0 {
			return b
		}
	case OShl, OLShr, OAShr:
		if b.IsConst() && b.U == 0 {
			return a
		}
	}
	return c.intern(op, a.S, "", 0, 0, a, b)
}

func foldBV(op Op, w int, a, b *Term) (uint64, bool) {
	x, y := a.U, b.U
	sx, sy := a.Int(), b.Int()
	switch op {
	case OAdd:
		return x + y, true
	case OSub:
		return x - y, true
	case OMul:
		return x * y, true
	case OSDiv:
		if y == 0 {
			return 0, false
		}
		if sy == -1 {
			return uint64(-sx), true
		}
		return uint64(sx / sy), true
	case OUDiv:
		if y == 0 {
			return 0, false
		}
		return x / y, true
	case OSRem:
		if y == 0 {
			return 0, false
		}
		if sy == -1 {
			return 0, true
		}
		return uint64(sx % sy), true
	case OURem:
		if y == 0 {
			return 0, false
		}
		return x % y, true
	case OBAnd:
		return x & y, true
	case OBOr:
		return x | y, true
	case OBXor:
		return x ^ y, true
	case OShl:
		if y >= uint64(w) {
			return 0, true
		}
		return x << y, true
	case OLShr:
		if y >= uint64(w) {
			return 0, true
		}
		return x >> y, true
	case OAShr:
		if y >= uint64(w) {
			if sx < 0 {
				return ^uint64(0), true
			}
			return 0, true
		}
		return uint64(sx >> y), true
	}
	return 0, false
}

func (c *Ctx) Add(a, b *Term) *Term  { return c.bin(OAdd, a, b) }
func (c *Ctx) Sub(a, b *Term) *Term  { return c.bin(OSub, a, b) }
func (c *Ctx) Mul(a, b *Term) *Term  { return c.bin(OMul, a, b) }
func (c *Ctx) SDiv(a, b *Term) *Term { return c.bin(OSDiv, a, b) }
func (c *Ctx) UDiv(a, b *Term) *Term { return c.bin(OUDiv, a, b) }
func (c *Ctx) SRem(a, b *Term) *Term { return c.bin(OSRem, a, b) }
func (c *Ctx) URem(a, b *Term) *Term { return c.bin(OURem, a, b) }
func (c *Ctx) BAnd(a, b *Term) *Term { return c.bin(OBAnd, a, b) }
func (c *Ctx) BOr(a, b *Term) *Term  { return c.bin(OBOr, a, b) }
func (c *Ctx) BXor(a, b *Term) *Term { return c.bin(OBXor, a, b) }
func (c *Ctx) Shl(a, b *Term) *Term  { return c.bin(OShl, a, b) }
func (c *Ctx) LShr(a, b *Term) *Term { return c.bin(OLShr, a, b) }
func (c *Ctx) AShr(a, b *Term) *Term { return c.bin(OAShr, a, b) }

func (c *Ctx) BNot(a *Term) *Term {
	if a.IsConst() {
		return mkBV(a.S.W, ^a.U)
	}
	return c.intern(OBNot, a.S, "", 0, 0, a)
}

func (c *Ctx) Neg(a *Term) *Term {
	if a.IsConst() {
		return mkBV(a.S.W, -a.U)
	}
	return c.intern(ONeg, a.S, "", 0, 0, a)
}

func (c *Ctx) cmp(op Op, a, b *Term) *Term {
	if a.S != b.S {
		panic(fmt.Sprintf("bv cmp sort mismatch %v %v", a.S, b.S))
	}
	if a.IsConst() && b.IsConst() {
		switch op {
		case OSlt:
			return mkBool(a.Int() < b.Int())
		case OSle:
			return mkBool(a.Int() <= b.Int())
		case OUlt:
			return mkBool(a.U < b.U)
		case OUle:
			return mkBool(a.U <= b.U)
		}
	}
	if a == b {
		return mkBool(op == OSle || op == OUle)
	}
	return c.intern(op, SBool, "", 0, 0, a, b)
}

func (c *Ctx) Slt(a, b *Term) *Term { return c.cmp(OSlt, a, b) }
func (c *Ctx) Sle(a, b *Term) *Term { return c.cmp(OSle, a, b) }
func (c *Ctx) Ult(a, b *Term) *Term { return c.cmp(OUlt, a, b) }
func (c *Ctx) Ule(a, b *Term) *Term { return c.cmp(OUle, a, b) }

// Resize converts a BV to width w with sign or zero extension / truncation.
func (c *Ctx) Resize(a *Term, w int, signed bool) *Term {
	if a.S.W == w {
		return a
	}
	if a.IsConst() {
		if signed {
			return mkBV(w, uint64(a.Int()))
		}
		return mkBV(w, a.U)
	}
	if w < a.S.W {
		// truncation of an extension collapses
		if (a.Op == OSExt || a.Op == OZExt) && a.A[0].S.W == w {
			return a.A[0]
		}
		return c.intern(OExtract, Sort{KBV, w}, "", w-1, 0, a)
	}
	if signed {
		t := c.intern(OSExt, Sort{KBV, w}, "", w-a.S.W, 0, a)
		return t
	}
	return c.intern(OZExt, Sort{KBV, w}, "", w-a.S.W, 0, a)
}

// ---------- floating point ----------

func f32(x float64) float64 { return float64(float32(x)) }

func (c *Ctx) fbin(op Op, a, b *Term) *Term {
	if a.S != b.S {
		panic("fp binop sort mismatch")
	}
	if a.IsConst() && b.IsConst() {
		var r float64
		if a.S.W == 32 {
			x, y := float32(a.F), float32(b.F)
			switch op {
			case OFAdd:
				r = float64(x + y)
			case OFSub:
				r = float64(x - y)
			case OFMul:
				r = float64(x * y)
			case OFDiv:
				r = float64(x / y)
			}
		} else {
			switch op {
			case OFAdd:
				r = a.F + b.F
			case OFSub:
				r = a.F - b.F
			case OFMul:
				r = a.F * b.F
			case OFDiv:
				r = a.F / b.F
			}
		}
		return mkFP(a.S.W, r)
	}
	return c.intern(op, a.S, "", 0, 0, a, b)
}

func (c *Ctx) FAdd(a, b *Term) *Term { return c.fbin(OFAdd, a, b) }
func (c *Ctx) FSub(a, b *Term) *Term { return c.fbin(OFSub, a, b) }
func (c *Ctx) FMul(a, b *Term) *Term { return c.fbin(OFMul, a, b) }
func (c *Ctx) FDiv(a, b *Term) *Term { return c.fbin(OFDiv, a, b) }

func (c *Ctx) FNeg(a *Term) *Term {
	if a.IsConst() {
		return mkFP(a.S.W, -a.F)
	}
	return c.intern(OFNeg, a.S, "", 0, 0, a)
}

func (c *Ctx) FAbs(a *Term) *Term {
	if a.IsConst() {
		return mkFP(a.S.W, math.Abs(a.F))
	}
	return c.intern(OFAbs, a.S, "", 0, 0, a)
}

func (c *Ctx) FSqrt(a *Term) *Term {
	if a.IsConst() {
		return mkFP(a.S.W, math.Sqrt(a.F))
	}
	return c.intern(OFSqrt, a.S, "", 0, 0, a)
}

// isIntegralFP: the value is known to be an integer (or inf/NaN is impossible): int->fp conversions.
func isIntegralFP(t *Term) bool {
	switch t.Op {
	case OSToFP, OUToFP, OFRound:
		return true
	case OFToFP:
		return t.S.W > t.A[0].S.W && isIntegralFP(t.A[0])
	}
	return false
}

func (c *Ctx) FRound(a *Term, mode int) *Term {
	if isIntegralFP(a) {
		return a
	}
	if a.IsConst() {
		switch mode {
		case 0:
			return mkFP(a.S.W, math.Trunc(a.F))
		case 1:
			return mkFP(a.S.W, math.Floor(a.F))
		case 2:
			return mkFP(a.S.W, math.Ceil(a.F))
		default:
			return mkFP(a.S.W, math.Round(a.F))
		}
	}
	return c.intern(OFRound, a.S, "", mode, 0, a)
}

func (c *Ctx) fcmp(op Op, a, b *Term) *Term {
	if a.IsConst() && b.IsConst() {
		switch op {
		case OFLt:
			return mkBool(a.F < b.F)
		case OFLe:
			return mkBool(a.F <= b.F)
		default:
			return mkBool(a.F == b.F)
		}
	}
	return c.intern(op, SBool, "", 0, 0, a, b)
}

func (c *Ctx) FLt(a, b *Term) *Term { return c.fcmp(OFLt, a, b) }
func (c *Ctx) FLe(a, b *Term) *Term { return c.fcmp(OFLe, a, b) }
func (c *Ctx) FEq(a, b *Term) *Term { return c.fcmp(OFEq, a, b) }

func (c *Ctx) FIsNaN(a *Term) *Term {
	if a.IsConst() {
		return mkBool(math.IsNaN(a.F))
	}
	return c.intern(OFIsNaN, SBool, "", 0, 0, a)
}

func (c *Ctx) FToFP(a *Term, w int) *Term {
	if a.S.W == w {
		return a
	}
	if a.IsConst() {
		return mkFP(w, a.F)
	}
	// widening then narrowing back is the identity
	if w == 32 && a.Op == OFToFP && a.A[0].S.W == 32 {
		return a.A[0]
	}
	return c.intern(OFToFP, Sort{KFP, w}, "", 0, 0, a)
}

func (c *Ctx) IntToFP(a *Term, w int, signed bool) *Term {
	if a.IsConst() {
		if signed {
			if w == 32 {
				return mkFP(32, float64(float32(a.Int())))
			}
			return mkFP(64, float64(a.Int()))
		}
		if w == 32 {
			return mkFP(32, float64(float32(a.U)))
		}
		return mkFP(64, float64(a.U))
	}
	op := OSToFP
	if !signed {
		op = OUToFP
	}
	return c.intern(op, Sort{KFP, w}, "", 0, 0, a)
}

// FPToInt models Go on amd64: truncation toward zero; NaN and out-of-range
// values give the minimum integer ("integer indefinite").
func (c *Ctx) FPToInt(a *Term, w int, signed bool) *Term {
	if a.IsConst() {
		f := a.F
		if signed {
			lim := math.Ldexp(1, w-1)
			if math.IsNaN(f) || f >= lim || f < -lim {
				return mkBV(w, uint64(1)<<uint(w-1))
			}
			return mkBV(w, uint64(int64(f)))
		}
		lim := math.Ldexp(1, w)
		if math.IsNaN(f) || f >= lim || f <= -1 {
			// platform dependent; use the amd64 result for uint64
			return mkBV(w, uint64(1)<<uint(w-1))
		}
		return mkBV(w, uint64(f))
	}
	op := OFToSBV
	if !signed {
		op = OFToUBV
	}
	return c.intern(op, Sort{KBV, w}, "", 0, 0, a)
}

func (c *Ctx) UF(name string, s Sort, args ...*Term) *Term {
	return c.intern(OUF, s, name, 0, 0, args...)
}

// ---------- SMT-LIB printing ----------

func bvLit(w int, v uint64) string {
	if w%4 == 0 {
		return fmt.Sprintf("#x%0*x", w/4, v&mask(w))
	}
	return fmt.Sprintf("#b%0*b", w, v&mask(w))
}

func fpLit(w int, f float64) string {
	if w == 32 {
		b := math.Float32bits(float32(f))
		return fmt.Sprintf("(fp #b%01b #b%08b #b%023b)", b>>31, (b>>23)&0xff, b&0x7fffff)
	}
	b := math.Float64bits(f)
	return fmt.Sprintf("(fp #b%01b #b%011b #b%052b)", b>>63, (b>>52)&0x7ff, b&0xfffffffffffff)
}

// smtName: the SMT symbol of a variable; the sort is part of the symbol so that the
// same harness name used with different types on different paths never clashes.
func smtName(t *Term) string {
	return "|" + t.Name + sortTag(t.S) + "|"
}

func sortTag(s Sort) string {
	switch s.K {
	case KBool:
		return "~b"
	case KBV:
		return "~v" + strconv.Itoa(s.W)
	}
	return "~f" + strconv.Itoa(s.W)
}

func stripSortTag(n string) string {
	if i := strings.LastIndex(n, "~"); i >= 0 {
		return n[:i]
	}
	return n
}

var opNames = map[Op]string{
	ONot: "not", OAnd: "and", OOr: "or", OIte: "ite", OEq: "=",
	OAdd: "bvadd", OSub: "bvsub", OMul: "bvmul", OSDiv: "bvsdiv", OUDiv: "bvudiv",
	OSRem: "bvsrem", OURem: "bvurem", OBAnd: "bvand", OBOr: "bvor", OBXor: "bvxor",
	OBNot: "bvnot", ONeg: "bvneg", OShl: "bvshl", OLShr: "bvlshr", OAShr: "bvashr",
	OSlt: "bvslt", OSle: "bvsle", OUlt: "bvult", OUle: "bvule",
	OFNeg: "fp.neg", OFAbs: "fp.abs", OFLt: "fp.lt", OFLe: "fp.leq", OFEq: "fp.eq",
	OFIsNaN: "fp.isNaN",
}

func fpParams(w int) string {
	if w == 32 {
		return "8 24"
	}
	return "11 53"
}

func (t *Term) SMT() string {
	if t.str != "" {
		return t.str
	}
	var s string
	switch t.Op {
	case OConst:
		switch t.S.K {
		case KBool:
			if t.U != 0 {
				return "true"
			}
			return "false"
		case KBV:
			return bvLit(t.S.W, t.U)
		default:
			return fpLit(t.S.W, t.F)
		}
	case OVar:
		s = smtName(t)
	case OSExt:
		s = fmt.Sprintf("((_ sign_extend %d) %s)", t.P0, t.A[0].SMT())
	case OZExt:
		s = fmt.Sprintf("((_ zero_extend %d) %s)", t.P0, t.A[0].SMT())
	case OExtract:
		s = fmt.Sprintf("((_ extract %d %d) %s)", t.P0, t.P1, t.A[0].SMT())
	case OFAdd, OFSub, OFMul, OFDiv:
		n := map[Op]string{OFAdd: "fp.add", OFSub: "fp.sub", OFMul: "fp.mul", OFDiv: "fp.div"}[t.Op]
		s = fmt.Sprintf("(%s RNE %s %s)", n, t.A[0].SMT(), t.A[1].SMT())
	case OFSqrt:
		s = fmt.Sprintf("(fp.sqrt RNE %s)", t.A[0].SMT())
	case OFRound:
		m := [...]string{"RTZ", "RTN", "RTP", "RNA"}[t.P0]
		s = fmt.Sprintf("(fp.roundToIntegral %s %s)", m, t.A[0].SMT())
	case OFToFP:
		s = fmt.Sprintf("((_ to_fp %s) RNE %s)", fpParams(t.S.W), t.A[0].SMT())
	case OSToFP:
		s = fmt.Sprintf("((_ to_fp %s) RNE %s)", fpParams(t.S.W), t.A[0].SMT())
	case OUToFP:
		s = fmt.Sprintf("((_ to_fp_unsigned %s) RNE %s)", fpParams(t.S.W), t.A[0].SMT())
	case OFToSBV:
		a := t.A[0].SMT()
		w := t.S.W
		lim := fpLit(t.A[0].S.W, math.Ldexp(1, w-1))
		nlim := fpLit(t.A[0].S.W, -math.Ldexp(1, w-1))
		s = fmt.Sprintf("(ite (and (fp.lt %s %s) (fp.geq %s %s)) ((_ fp.to_sbv %d) RTZ %s) %s)",
			a, lim, a, nlim, w, a, bvLit(w, uint64(1)<<uint(w-1)))
	case OFToUBV:
		a := t.A[0].SMT()
		w := t.S.W
		lim := fpLit(t.A[0].S.W, math.Ldexp(1, w))
		s = fmt.Sprintf("(ite (and (fp.lt %s %s) (fp.gt %s %s)) ((_ fp.to_ubv %d) RTZ %s) %s)",
			a, lim, a, fpLit(t.A[0].S.W, -1), w, a, bvLit(w, uint64(1)<<uint(w-1)))
	case OUF:
		var sb strings.Builder
		sb.WriteString("(" + t.Name)
		for _, a := range t.A {
			sb.WriteByte(' ')
			sb.WriteString(a.SMT())
		}
		sb.WriteByte(')')
		s = sb.String()
	default:
		n, ok := opNames[t.Op]
		if !ok {
			panic(fmt.Sprintf("SMT: unknown op %d", t.Op))
		}
		var sb strings.Builder
		sb.WriteByte('(')
		sb.WriteString(n)
		for _, a := range t.A {
			sb.WriteByte(' ')
			sb.WriteString(a.SMT())
		}
		sb.WriteByte(')')
		s = sb.String()
	}
	t.str = s
	return s
}

// collectVars appends the variables and UFs occurring in t.
func collectVars(t *Term, seen map[*Term]bool, vars *[]*Term, ufs *[]*Term) {
	if t.Op == OConst || seen[t] {
		return
	}
	seen[t] = true
	if t.Op == OVar {
		*vars = append(*vars, t)
		return
	}
	if t.Op == OUF {
		*ufs = append(*ufs, t)
	}
	for _, a := range t.A {
		collectVars(a, seen, vars, ufs)
	}
}

// evalTerm evaluates a Bool/BV term under an assignment of variables.
// ok=false if the term involves FP/UF or an unassigned variable.
func evalTerm(t *Term, asg map[string]uint64, memo map[*Term]uint64) (uint64, bool) {
	if t.Op == OConst {
		if t.S.K == KFP {
			return 0, false
		}
		return t.U, true
	}
	if v, ok := memo[t]; ok {
		return v, true
	}
	var r uint64
	switch t.Op {
	case OVar:
		v, ok := asg[t.Name]
		if !ok || t.S.K == KFP {
			return 0, false
		}
		r = v & mask(maxInt(t.S.W, 1))
		if t.S.K == KBool {
			r = v & 1
		}
	case ONot:
		a, ok := evalTerm(t.A[0], asg, memo)
		if !ok {
			return 0, false
		}
		r = a ^ 1
	case OAnd, OOr:
		a, ok := evalTerm(t.A[0], asg, memo)
		if !ok {
			return 0, false
		}
		b, ok := evalTerm(t.A[1], asg, memo)
		if !ok {
			return 0, false
		}
		if t.Op == OAnd {
			r = a & b
		} else {
			r = a | b
		}
	case OIte:
		cnd, ok := evalTerm(t.A[0], asg, memo)
		if !ok {
			return 0, false
		}
		if cnd != 0 {
			r, ok = evalTerm(t.A[1], asg, memo)
		} else {
			r, ok = evalTerm(t.A[2], asg, memo)
		}
		if !ok {
			return 0, false
		}
	case OEq:
		if t.A[0].S.K == KFP {
			return 0, false
		}
		a, ok := evalTerm(t.A[0], asg, memo)
		if !ok {
			return 0, false
		}
		b, ok := evalTerm(t.A[1], asg, memo)
		if !ok {
			return 0, false
		}
		if a == b {
			r = 1
		}
	case OAdd, OSub, OMul, OSDiv, OUDiv, OSRem, OURem, OBAnd, OBOr, OBXor, OShl, OLShr, OAShr:
		a, ok := evalTerm(t.A[0], asg, memo)
		if !ok {
			return 0, false
		}
		b, ok := evalTerm(t.A[1], asg, memo)
		if !ok {
			return 0, false
		}
		w := t.S.W
		v, ok := foldBV(t.Op, w, mkBV(w, a), mkBV(w, b))
		if !ok {
			// SMT semantics of division by zero
			switch t.Op {
			case OUDiv:
				v = mask(w)
			case OSDiv:
				if mkBV(w, a).Int() < 0 {
					v = 1
				} else {
					v = mask(w)
				}
			default:
				v = a
			}
		}
		r = v & mask(w)
	case OBNot:
		a, ok := evalTerm(t.A[0], asg, memo)
		if !ok {
			return 0, false
		}
		r = ^a & mask(t.S.W)
	case ONeg:
		a, ok := evalTerm(t.A[0], asg, memo)
		if !ok {
			return 0, false
		}
		r = -a & mask(t.S.W)
	case OSlt, OSle, OUlt, OUle:
		a, ok := evalTerm(t.A[0], asg, memo)
		if !ok {
			return 0, false
		}
		b, ok := evalTerm(t.A[1], asg, memo)
		if !ok {
			return 0, false
		}
		w := t.A[0].S.W
		x, y := mkBV(w, a), mkBV(w, b)
		var res bool
		switch t.Op {
		case OSlt:
			res = x.Int() < y.Int()
		case OSle:
			res = x.Int() <= y.Int()
		case OUlt:
			res = x.U < y.U
		default:
			res = x.U <= y.U
		}
		if res {
			r = 1
		}
	case OSExt:
		a, ok := evalTerm(t.A[0], asg, memo)
		if !ok {
			return 0, false
		}
		r = uint64(mkBV(t.A[0].S.W, a).Int()) & mask(t.S.W)
	case OZExt:
		a, ok := evalTerm(t.A[0], asg, memo)
		if !ok {
			return 0, false
		}
		r = a
	case OExtract:
		a, ok := evalTerm(t.A[0], asg, memo)
		if !ok {
			return 0, false
		}
		r = (a >> uint(t.P1)) & mask(t.P0-t.P1+1)
	default:
		return 0, false
	}
	memo[t] = r
	return r, true
}

func maxInt(a, b int) int {
	if a > b {
		return a
	}
	return b
}

var _ = bits.Len

// Rebuild re-applies t's operator to new arguments (with folding).
func (c *Ctx) Rebuild(t *Term, a []*Term) *Term {
	switch t.Op {
	case ONot:
		return c.Not(a[0])
	case OAnd:
		return c.And(a[0], a[1])
	case OOr:
		return c.Or(a[0], a[1])
	case OIte:
		return c.Ite(a[0], a[1], a[2])
	case OEq:
		return c.Eq(a[0], a[1])
	case OAdd, OSub, OMul, OSDiv, OUDiv, OSRem, OURem, OBAnd, OBOr, OBXor, OShl, OLShr, OAShr:
		if (t.Op == OSDiv || t.Op == OUDiv || t.Op == OSRem || t.Op == OURem) && a[1].IsConst() && a[1].U == 0 {
			return c.intern(t.Op, t.S, "", 0, 0, a...)
		}
		return c.bin(t.Op, a[0], a[1])
	case OBNot:
		return c.BNot(a[0])
	case ONeg:
		return c.Neg(a[0])
	case OSlt, OSle, OUlt, OUle:
		return c.cmp(t.Op, a[0], a[1])
	case OSExt:
		return c.Resize(a[0], t.S.W, true)
	case OZExt:
		return c.Resize(a[0], t.S.W, false)
	case OExtract:
		if t.P1 == 0 {
			return c.Resize(a[0], t.S.W, false)
		}
		return c.intern(t.Op, t.S, "", t.P0, t.P1, a...)
	case OFAdd, OFSub, OFMul, OFDiv:
		return c.fbin(t.Op, a[0], a[1])
	case OFNeg:
		return c.FNeg(a[0])
	case OFAbs:
		return c.FAbs(a[0])
	case OFSqrt:
		return c.FSqrt(a[0])
	case OFLt, OFLe, OFEq:
		return c.fcmp(t.Op, a[0], a[1])
	case OFIsNaN:
		return c.FIsNaN(a[0])
	case OFRound:
		return c.FRound(a[0], t.P0)
	case OFToFP:
		return c.FToFP(a[0], t.S.W)
	case OSToFP:
		return c.IntToFP(a[0], t.S.W, true)
	case OUToFP:
		return c.IntToFP(a[0], t.S.W, false)
	case OFToSBV:
		return c.FPToInt(a[0], t.S.W, true)
	case OFToUBV:
		return c.FPToInt(a[0], t.S.W, false)
	}
	return c.intern(t.Op, t.S, t.Name, t.P0, t.P1, a...)
}
