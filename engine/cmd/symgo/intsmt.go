package main

// Integer encoding of bit-vector terms that keeps the mod-2^w semantics
// ("Int-with-wrap", DESIGN.md 2.5). Used for queries with multiplication /
// division kernels that bit-blasting does not finish. Every BV value is
// represented by its signed value in [-2^(w-1), 2^(w-1)).

import (
	"fmt"
	"math/big"
	"strings"
)

const (
	fHard  = 1 << iota // contains mul/div/rem of two non-trivial operands or by a constant
	fNoInt             // contains something the Int printer cannot express
	fSeen
	fHardFP // floating-point conversions / rounding / mul / div: solved one-shot (full preprocessing)
)

func termFlags(t *Term, memo map[*Term]int) int {
	if t.Op == OConst {
		if t.S.K == KFP {
			return fNoInt
		}
		return 0
	}
	if f, ok := memo[t]; ok {
		return f
	}
	f := 0
	switch t.Op {
	case OMul, OSDiv, OUDiv, OSRem, OURem:
		f |= fHard
	case OBAnd:
		if !(t.A[1].IsConst() && isMask(t.A[1].U)) && !(t.A[0].IsConst() && isMask(t.A[0].U)) {
			f |= fNoInt
		}
	case OBOr, OBXor:
		f |= fNoInt
	case OShl, OLShr, OAShr:
		if !t.A[1].IsConst() {
			f |= fNoInt
		}
	case OExtract:
		if t.P1 != 0 {
			f |= fNoInt
		}
	case OSToFP, OUToFP, OFToSBV, OFToUBV, OFRound, OFSqrt, OFMul, OFDiv:
		f |= fNoInt | fHardFP
	case OUF, OFAdd, OFSub, OFNeg, OFAbs, OFLt, OFLe, OFEq, OFIsNaN, OFToFP, OFBits:
		f |= fNoInt
	case OVar:
		if t.S.K == KFP {
			f |= fNoInt
		}
	case OEq, OIte:
		if t.A[len(t.A)-1].S.K == KFP {
			f |= fNoInt
		}
	}
	for _, a := range t.A {
		f |= termFlags(a, memo)
	}
	memo[t] = f
	return f
}

func isMask(u uint64) bool { return u != 0 && (u&(u+1)) == 0 }

func pow2(w int) string {
	return new(big.Int).Lsh(big.NewInt(1), uint(w)).String()
}

func intLit(v int64) string {
	if v < 0 {
		return "(- " + new(big.Int).Neg(big.NewInt(v)).String() + ")"
	}
	return fmt.Sprintf("%d", v)
}

func wrapFn(w int) string { return fmt.Sprintf("wrap%d", w) }
func unsFn(w int) string  { return fmt.Sprintf("uns%d", w) }

// intPrelude defines wrapW / unsW / tdiv for the widths in use.
func intPrelude() string {
	var sb strings.Builder
	sb.WriteString("(define-fun tdiv ((a Int) (b Int)) Int (ite (>= a 0) (ite (> b 0) (div a b) (- (div a (- b)))) (ite (> b 0) (- (div (- a) b)) (div (- a) (- b)))))\n")
	for _, w := range []int{8, 16, 32, 64} {
		fmt.Fprintf(&sb, "(define-fun %s ((x Int)) Int (- (mod (+ x %s) %s) %s))\n", wrapFn(w), pow2(w-1), pow2(w), pow2(w-1))
		fmt.Fprintf(&sb, "(define-fun %s ((x Int)) Int (ite (< x 0) (+ x %s) x))\n", unsFn(w), pow2(w))
	}
	return sb.String()
}

type intPrinter struct {
	memo   map[*Term]string
	vars   map[*Term]bool
	rmemo  map[*Term][2]*big.Int
	wmemo  map[*Term]bool
	bounds func(*Term) ([2]int64, bool)
}

func fullRange(w int) [2]*big.Int {
	hi := new(big.Int).Lsh(big.NewInt(1), uint(w-1))
	lo := new(big.Int).Neg(hi)
	return [2]*big.Int{lo, new(big.Int).Sub(hi, big.NewInt(1))}
}

func fits(r [2]*big.Int, w int) bool {
	f := fullRange(w)
	return r[0].Cmp(f[0]) >= 0 && r[1].Cmp(f[1]) <= 0
}

// rng: an interval containing the (signed) value of a BV term, from the known
// bounds of the variables; used to drop wrap-around where it cannot happen.
func (p *intPrinter) rng(t *Term) [2]*big.Int {
	if t.S.K != KBV {
		return [2]*big.Int{big.NewInt(0), big.NewInt(1)}
	}
	if t.Op == OConst {
		v := big.NewInt(t.Int())
		return [2]*big.Int{v, v}
	}
	if p.rmemo == nil {
		p.rmemo = map[*Term][2]*big.Int{}
	}
	if r, ok := p.rmemo[t]; ok {
		return r
	}
	w := t.S.W
	r := fullRange(w)
	minmax := func(xs ...*big.Int) [2]*big.Int {
		lo, hi := xs[0], xs[0]
		for _, x := range xs[1:] {
			if x.Cmp(lo) < 0 {
				lo = x
			}
			if x.Cmp(hi) > 0 {
				hi = x
			}
		}
		return [2]*big.Int{lo, hi}
	}
	switch t.Op {
	case OVar:
		if p.bounds != nil {
			if b, ok := p.bounds(t); ok {
				r = [2]*big.Int{big.NewInt(b[0]), big.NewInt(b[1])}
			}
		}
	case OAdd:
		a, b := p.rng(t.A[0]), p.rng(t.A[1])
		r = [2]*big.Int{new(big.Int).Add(a[0], b[0]), new(big.Int).Add(a[1], b[1])}
	case OSub:
		a, b := p.rng(t.A[0]), p.rng(t.A[1])
		r = [2]*big.Int{new(big.Int).Sub(a[0], b[1]), new(big.Int).Sub(a[1], b[0])}
	case OMul:
		a, b := p.rng(t.A[0]), p.rng(t.A[1])
		r = minmax(new(big.Int).Mul(a[0], b[0]), new(big.Int).Mul(a[0], b[1]), new(big.Int).Mul(a[1], b[0]), new(big.Int).Mul(a[1], b[1]))
	case ONeg:
		a := p.rng(t.A[0])
		r = [2]*big.Int{new(big.Int).Neg(a[1]), new(big.Int).Neg(a[0])}
	case OSDiv:
		a := p.rng(t.A[0])
		if t.A[1].IsConst() && t.A[1].Int() > 0 {
			d := big.NewInt(t.A[1].Int())
			r = [2]*big.Int{new(big.Int).Quo(a[0], d), new(big.Int).Quo(a[1], d)}
		}
	case OIte:
		a, b := p.rng(t.A[1]), p.rng(t.A[2])
		r = minmax(a[0], a[1], b[0], b[1])
	case OSExt:
		r = p.rng(t.A[0])
	}
	if !fits(r, w) {
		r = fullRange(w)
		r = [2]*big.Int{r[0], r[1]}
		p.rmemo[t] = [2]*big.Int{nil, nil}
		p.rmemo[t] = fullRange(w)
		// mark as possibly wrapping
		p.wraps(t, true)
		return p.rmemo[t]
	}
	p.rmemo[t] = r
	return r
}

var _ = (*intPrinter).wraps

func (p *intPrinter) wraps(t *Term, set bool) bool {
	if p.wmemo == nil {
		p.wmemo = map[*Term]bool{}
	}
	if set {
		p.wmemo[t] = true
	}
	return p.wmemo[t]
}

// noWrap: the exact (unbounded) result of t's arithmetic provably fits its width.
func (p *intPrinter) noWrap(t *Term) bool {
	p.rng(t)
	return !p.wraps(t, false)
}

func (p *intPrinter) pr(t *Term) string {
	if t.Op == OConst {
		if t.S.K == KBool {
			if t.U != 0 {
				return "true"
			}
			return "false"
		}
		return intLit(t.Int())
	}
	if s, ok := p.memo[t]; ok {
		return s
	}
	w := t.S.W
	a := func(i int) string { return p.pr(t.A[i]) }
	var s string
	switch t.Op {
	case OVar:
		p.vars[t] = true
		s = "|" + t.Name + "!i|"
	case ONot:
		s = "(not " + a(0) + ")"
	case OAnd:
		s = "(and " + a(0) + " " + a(1) + ")"
	case OOr:
		s = "(or " + a(0) + " " + a(1) + ")"
	case OIte:
		s = "(ite " + a(0) + " " + a(1) + " " + a(2) + ")"
	case OEq:
		s = "(= " + a(0) + " " + a(1) + ")"
	case OAdd:
		if p.noWrap(t) {
			s = fmt.Sprintf("(+ %s %s)", a(0), a(1))
		} else {
			s = fmt.Sprintf("(%s (+ %s %s))", wrapFn(w), a(0), a(1))
		}
	case OSub:
		if p.noWrap(t) {
			s = fmt.Sprintf("(- %s %s)", a(0), a(1))
		} else {
			s = fmt.Sprintf("(%s (- %s %s))", wrapFn(w), a(0), a(1))
		}
	case OMul:
		if p.noWrap(t) {
			s = fmt.Sprintf("(* %s %s)", a(0), a(1))
		} else {
			s = fmt.Sprintf("(%s (* %s %s))", wrapFn(w), a(0), a(1))
		}
	case ONeg:
		if p.noWrap(t) {
			s = fmt.Sprintf("(- %s)", a(0))
		} else {
			s = fmt.Sprintf("(%s (- %s))", wrapFn(w), a(0))
		}
	case OBNot:
		s = fmt.Sprintf("(- (- %s) 1)", a(0))
	case OSDiv:
		// SMT-LIB bvsdiv by zero is not reachable here: the interpreter forks on the divisor first
		if t.A[1].IsConst() && t.A[1].Int() != -1 {
			s = fmt.Sprintf("(tdiv %s %s)", a(0), a(1))
		} else {
			s = fmt.Sprintf("(%s (tdiv %s %s))", wrapFn(w), a(0), a(1))
		}
	case OSRem:
		s = fmt.Sprintf("(- %s (* %s (tdiv %s %s)))", a(0), a(1), a(0), a(1))
	case OUDiv:
		s = fmt.Sprintf("(%s (div (%s %s) (%s %s)))", wrapFn(w), unsFn(w), a(0), unsFn(w), a(1))
	case OURem:
		s = fmt.Sprintf("(%s (mod (%s %s) (%s %s)))", wrapFn(w), unsFn(w), a(0), unsFn(w), a(1))
	case OBAnd:
		x, m := t.A[0], t.A[1]
		if x.IsConst() {
			x, m = m, x
		}
		s = fmt.Sprintf("(%s (mod (%s %s) %s))", wrapFn(w), unsFn(w), p.pr(x), new(big.Int).Add(new(big.Int).SetUint64(m.U), big.NewInt(1)).String())
	case OShl:
		k := int(t.A[1].U)
		if k >= w {
			s = "0"
		} else {
			s = fmt.Sprintf("(%s (* %s %s))", wrapFn(w), a(0), pow2(k))
		}
	case OLShr:
		k := int(t.A[1].U)
		if k >= w {
			s = "0"
		} else {
			s = fmt.Sprintf("(%s (div (%s %s) %s))", wrapFn(w), unsFn(w), a(0), pow2(k))
		}
	case OAShr:
		k := int(t.A[1].U)
		if k >= w {
			k = w - 1
		}
		s = fmt.Sprintf("(div %s %s)", a(0), pow2(k))
	case OSlt:
		s = "(< " + a(0) + " " + a(1) + ")"
	case OSle:
		s = "(<= " + a(0) + " " + a(1) + ")"
	case OUlt:
		sw := t.A[0].S.W
		s = fmt.Sprintf("(< (%s %s) (%s %s))", unsFn(sw), a(0), unsFn(sw), a(1))
	case OUle:
		sw := t.A[0].S.W
		s = fmt.Sprintf("(<= (%s %s) (%s %s))", unsFn(sw), a(0), unsFn(sw), a(1))
	case OSExt:
		s = a(0)
	case OZExt:
		s = fmt.Sprintf("(%s %s)", unsFn(t.A[0].S.W), a(0))
	case OExtract:
		s = fmt.Sprintf("(%s %s)", wrapFn(w), a(0))
	default:
		panic(fmt.Sprintf("intPrinter: op %d", t.Op))
	}
	p.memo[t] = s
	return s
}

// CheckInt decides pc ∧ q in the integer encoding (non-incremental).
func (s0 *Solver) CheckInt(pc []*Term, q *Term, wantModel bool) (string, map[string]uint64) {
	// a separate, non-incremental solver process: after (reset) z3 applies its
	// full preprocessing, which decides these kernels; the incremental core does not
	if s0.intProc == nil {
		s0.intProc = &Solver{kind: s0.kind, timeout: s0.timeout, log: s0.log}
		s0.intProc.start()
	}
	s := s0.intProc
	p := &intPrinter{memo: map[*Term]string{}, vars: map[*Term]bool{}, bounds: s0.BoundsOf}
	var asserts []string
	for _, c := range pc {
		asserts = append(asserts, p.pr(c))
	}
	if q != nil {
		asserts = append(asserts, p.pr(q))
	}
	var sb strings.Builder
	sb.WriteString("(reset)\n")
	fmt.Fprintf(&sb, "(set-option :timeout %d)\n", s.timeout)
	sb.WriteString(intPrelude())
	var names []*Term
	for v := range p.vars {
		names = append(names, v)
	}
	for _, v := range names {
		key := v.Name + "!i"
		srt := "Int"
		if v.S.K == KBool {
			srt = "Bool"
		}
		fmt.Fprintf(&sb, "(declare-const |%s| %s)\n", key, srt)
	}
	for _, v := range names {
		if v.S.K == KBV {
			fmt.Fprintf(&sb, "(assert (and (<= (- %s) |%s!i|) (< |%s!i| %s)))\n", pow2(v.S.W-1), v.Name, v.Name, pow2(v.S.W-1))
		}
	}
	for _, a := range asserts {
		sb.WriteString("(assert " + a + ")\n")
	}
	sb.WriteString("(check-sat)\n")
	s.send(sb.String())
	lines := s.sync()
	res := "unknown"
	for _, l := range lines {
		if strings.HasPrefix(l, "(error") {
			res = "error"
			break
		}
		if l == "sat" || l == "unsat" || l == "unknown" {
			res = l
		}
	}
	var model map[string]uint64
	if res == "sat" && wantModel {
		model = map[string]uint64{}
		if len(names) > 0 {
			var gb strings.Builder
			gb.WriteString("(get-value (")
			for _, v := range names {
				fmt.Fprintf(&gb, "|%s!i| ", v.Name)
			}
			gb.WriteString("))\n")
			s.send(gb.String())
			out := strings.Join(s.sync(), " ")
			i := 0
			e := parseSexp(out, &i)
			if e != nil {
				for _, pr := range e.list {
					if pr == nil || len(pr.list) != 2 {
						continue
					}
					name := strings.TrimSuffix(pr.list[0].atom, "!i")
					model[name] = intValBits(pr.list[1])
				}
			}
		}
	}
	return res, model
}

func intValBits(e *sexp) uint64 {
	if e.atom != "" {
		switch e.atom {
		case "true":
			return 1
		case "false":
			return 0
		}
		b, ok := new(big.Int).SetString(e.atom, 10)
		if !ok {
			return 0
		}
		return b.Uint64()
	}
	if len(e.list) == 2 && e.list[0].atom == "-" {
		b, ok := new(big.Int).SetString(e.list[1].atom, 10)
		if !ok {
			return 0
		}
		return -b.Uint64()
	}
	return 0
}

// CheckOneShot decides pc ∧ q in the bit-vector/FP encoding in the auxiliary
// non-incremental process (z3 applies its full tactic pipeline after reset).
func (s0 *Solver) CheckOneShot(pc []*Term, q *Term, wantModel bool, vars []*Term) (string, map[string]uint64) {
	if s0.intProc == nil {
		s0.intProc = &Solver{kind: s0.kind, timeout: s0.timeout, log: s0.log}
		s0.intProc.start()
	}
	s := s0.intProc
	var sb strings.Builder
	sb.WriteString("(reset)\n")
	fmt.Fprintf(&sb, "(set-option :timeout %d)\n", s.timeout)
	sb.WriteString(s0.prelude)
	s.declared = map[string]string{}
	if s0.prelude != "" {
		s.declared["uf:go_toupper"] = "uf"
		s.declared["uf:go_tolower"] = "uf"
	}
	for _, c := range pc {
		s.declare(c, &sb)
	}
	if q != nil {
		s.declare(q, &sb)
	}
	for _, c := range pc {
		sb.WriteString("(assert " + c.SMT() + ")\n")
	}
	if q != nil {
		sb.WriteString("(assert " + q.SMT() + ")\n")
	}
	sb.WriteString("(check-sat)\n")
	s.send(sb.String())
	lines := s.sync()
	res := "unknown"
	for _, l := range lines {
		if strings.HasPrefix(l, "(error") {
			res = "error"
			break
		}
		if l == "sat" || l == "unsat" || l == "unknown" {
			res = l
		}
	}
	var model map[string]uint64
	if res == "sat" && wantModel {
		model = map[string]uint64{}
		var gb strings.Builder
		gb.WriteString("(get-value (")
		n := 0
		for _, v := range vars {
			if _, ok := s.declared[v.Name+sortTag(v.S)]; ok {
				gb.WriteString(smtName(v) + " ")
				n++
			}
		}
		gb.WriteString("))\n")
		if n > 0 {
			s.send(gb.String())
			model = parseModel(strings.Join(s.sync(), " "))
		}
	}
	return res, model
}
