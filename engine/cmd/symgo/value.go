package main

// Run-time values of the symbolic interpreter.
//
//   *Term        bool / integer / float scalar (constant or symbolic)
//   Str          string as a sequence of rune terms
//   *value       pointer to a cell
//   SymRef       pointer to slice element with a symbolic index
//   structure    struct (fields)
//   array        array
//   []value      slice: len/cap are those of the target program's slice
//   iface        interface value (dynamic type + payload)
//   *MapV        map (ordered association list)
//   *ssa.Function, *closure, *ssa.Builtin   functions
//   tuple        multi-value

import (
	"fmt"
	"go/types"
	"strings"

	"golang.org/x/tools/go/ssa"
)

type value interface{}

type structure []value
type array []value
type tuple []value

type iface struct {
	t types.Type
	v value
}

type closure struct {
	Fn  *ssa.Function
	Env []value
}

type SymRef struct {
	base []value
	idx  *Term // BV64
}

// Str is a string: concrete-length sequence of runes (BV32 terms holding
// Unicode scalar values). Opaque marks results of formatting stubs whose
// content is not modelled.
type Str struct {
	R      []*Term
	Opaque bool
	OTag   string // identity of the opaque content: equal tags denote equal (unmodelled) text
}

// repr identifies the content of a string for memoising comparisons of opaque text.
func (s Str) repr() string {
	var sb strings.Builder
	for _, r := range s.R {
		if r.IsConst() {
			sb.WriteRune(rune(int32(r.U)))
		} else {
			sb.WriteString("<" + r.SMT() + ">")
		}
	}
	if s.Opaque {
		sb.WriteString("<<" + s.OTag + ">>")
	}
	return sb.String()
}

type MapV struct {
	keys []value
	vals []value
	kt   types.Type
}

type strIter struct {
	s   Str
	i   int
	off *Term
}

type mapIter struct {
	m *MapV
	i int
}

type sliceNil struct{} // unused marker

type bad struct{}

func mkStr(s string) Str {
	rs := []rune(s)
	out := make([]*Term, len(rs))
	for i, r := range rs {
		out[i] = mkBV(32, uint64(uint32(r)))
	}
	return Str{R: out}
}

func (s Str) Concrete() (string, bool) {
	if s.Opaque {
		return "", false
	}
	var sb strings.Builder
	for _, r := range s.R {
		if !r.IsConst() {
			return "", false
		}
		sb.WriteRune(rune(int32(r.U)))
	}
	return sb.String(), true
}

func (s Str) String() string {
	var sb strings.Builder
	for _, r := range s.R {
		if r.IsConst() {
			sb.WriteRune(rune(int32(r.U)))
		} else {
			sb.WriteString("<" + r.SMT() + ">")
		}
	}
	if s.Opaque {
		sb.WriteString("<opaque>")
	}
	return sb.String()
}

func intWidth(b *types.Basic) (int, bool) {
	switch b.Kind() {
	case types.Int8:
		return 8, true
	case types.Uint8:
		return 8, false
	case types.Int16:
		return 16, true
	case types.Uint16:
		return 16, false
	case types.Int32:
		return 32, true
	case types.Uint32:
		return 32, false
	case types.Int64, types.Int:
		return 64, true
	case types.Uint64, types.Uint, types.Uintptr:
		return 64, false
	case types.UntypedInt:
		return 64, true
	case types.UntypedRune:
		return 32, true
	}
	return 0, false
}

func isInteger(b *types.Basic) bool { return b.Info()&types.IsInteger != 0 }
func isFloat(b *types.Basic) bool   { return b.Info()&types.IsFloat != 0 }

// zero returns the zero value of type t.
func zero(t types.Type) value {
	switch t := t.Underlying().(type) {
	case *types.Basic:
		switch {
		case t.Kind() == types.Bool || t.Kind() == types.UntypedBool:
			return falseT
		case isInteger(t):
			w, _ := intWidth(t)
			return mkBV(w, 0)
		case t.Kind() == types.Float32:
			return mkFP(32, 0)
		case t.Kind() == types.Float64 || t.Kind() == types.UntypedFloat:
			return mkFP(64, 0)
		case t.Kind() == types.String || t.Kind() == types.UntypedString:
			return Str{}
		case t.Kind() == types.UnsafePointer:
			return (*value)(nil)
		case t.Kind() == types.UntypedNil:
			return nil
		}
		panic(unsupported(fmt.Sprintf("zero of basic type %v", t)))
	case *types.Pointer:
		return (*value)(nil)
	case *types.Struct:
		s := make(structure, t.NumFields())
		for i := range s {
			s[i] = zero(t.Field(i).Type())
		}
		return s
	case *types.Array:
		a := make(array, t.Len())
		for i := range a {
			a[i] = zero(t.Elem())
		}
		return a
	case *types.Slice:
		return []value(nil)
	case *types.Interface:
		return iface{}
	case *types.Map:
		return (*MapV)(nil)
	case *types.Signature:
		return (*ssa.Function)(nil)
	case *types.Tuple:
		tp := make(tuple, t.Len())
		for i := range tp {
			tp[i] = zero(t.At(i).Type())
		}
		return tp
	case *types.Chan:
		return nil
	}
	panic(unsupported(fmt.Sprintf("zero of type %v", t)))
}

// copyVal returns a copy of v (structs and arrays are value types).
func copyVal(v value) value {
	switch v := v.(type) {
	case structure:
		c := make(structure, len(v))
		for i := range v {
			c[i] = copyVal(v[i])
		}
		return c
	case array:
		c := make(array, len(v))
		for i := range v {
			c[i] = copyVal(v[i])
		}
		return c
	}
	return v
}

type unsupportedErr struct{ msg string }

func unsupported(msg string) unsupportedErr { return unsupportedErr{msg} }

// targetPanic is a panic of the interpreted program.
type targetPanic struct {
	v    value  // the panic value (iface)
	site string // function in which it was raised
	msg  string // human-readable message
}

// pathEnd aborts the current path for a non-error reason.
type pathEnd struct{ reason string }
