package main

// Symbolic interpreter for go/ssa, structured after
// golang.org/x/tools/go/ssa/interp (the reference for the dynamic
// semantics of each instruction).

import (
	"fmt"
	"go/token"
	"go/types"
	"strings"
	"sync"

	"golang.org/x/tools/go/ssa"
)

type Program struct {
	prog       *ssa.Program
	sizes      types.Sizes
	fset       *token.FileSet
	fnInfo     sync.Map // *ssa.Function -> *fnInfo
	consts     sync.Map // *ssa.Const -> value
	rtErrType  types.Type
	repoPrefix string
	initPkgs   []*ssa.Package // packages whose init is executed, in dependency order
	pkgByPath  map[string]*ssa.Package
	methodSets sync.Mutex
	harnessFn  sync.Map
}

type fnInfo struct {
	slots map[ssa.Value]int
	n     int
}

func (p *Program) info(fn *ssa.Function) *fnInfo {
	if v, ok := p.fnInfo.Load(fn); ok {
		return v.(*fnInfo)
	}
	fi := &fnInfo{slots: map[ssa.Value]int{}}
	add := func(v ssa.Value) {
		fi.slots[v] = fi.n
		fi.n++
	}
	for _, x := range fn.Params {
		add(x)
	}
	for _, x := range fn.FreeVars {
		add(x)
	}
	for _, b := range fn.Blocks {
		for _, in := range b.Instrs {
			if v, ok := in.(ssa.Value); ok {
				add(v)
			}
		}
	}
	if fn.Recover != nil {
		for _, in := range fn.Recover.Instrs {
			if v, ok := in.(ssa.Value); ok {
				if _, dup := fi.slots[v]; !dup {
					add(v)
				}
			}
		}
	}
	p.fnInfo.Store(fn, fi)
	return fi
}

// rtErrorMethod is the Error() method of the engine's run-time error values.
type rtErrorMethod struct{}

type deferred struct {
	fn    value
	args  []value
	instr *ssa.Defer
	tail  *deferred
}

type frame struct {
	m                *Machine
	caller           *frame
	fn               *ssa.Function
	info             *fnInfo
	block, prevBlock *ssa.BasicBlock
	env              []value
	locals           []value
	defers           *deferred
	result           value
	panicking        bool
	panic            interface{}
	phitemps         []value
}

func (fr *frame) get(key ssa.Value) value {
	switch key := key.(type) {
	case nil:
		return nil
	case *ssa.Function, *ssa.Builtin:
		return key
	case *ssa.Const:
		return fr.m.prog.constValue(key)
	case *ssa.Global:
		return fr.m.global(key)
	}
	if i, ok := fr.info.slots[key]; ok {
		v := fr.env[i]
		if v == nil {
			// could legitimately be a nil interface-typed value? we never store
			// untyped nil in env (zero values are typed), so nil means unset.
			panic(fmt.Sprintf("engine: get: unset value %s in %s", key.Name(), fr.fn))
		}
		return v
	}
	panic(fmt.Sprintf("engine: get: no slot for %T %v in %s", key, key.Name(), fr.fn))
}

func (fr *frame) set(key ssa.Value, v value) {
	if v == nil {
		panic(fmt.Sprintf("engine: set nil for %s = %s in %s", key.Name(), key, fr.fn))
	}
	fr.env[fr.info.slots[key]] = v
}

func (m *Machine) global(g *ssa.Global) *value {
	if p, ok := m.globals[g]; ok {
		return p
	}
	p := new(value)
	*p = zero(deref(g.Type()))
	m.globals[g] = p
	return p
}

func deref(t types.Type) types.Type {
	if p, ok := t.Underlying().(*types.Pointer); ok {
		return p.Elem()
	}
	panic("deref of non-pointer type " + t.String())
}

func (p *Program) constValue(c *ssa.Const) value {
	if v, ok := p.consts.Load(c); ok {
		return v
	}
	v := p.constValue0(c)
	p.consts.Store(c, v)
	return v
}

func (p *Program) constValue0(c *ssa.Const) value {
	if c.Value == nil {
		return zero(c.Type())
	}
	if t, ok := c.Type().Underlying().(*types.Basic); ok {
		switch {
		case t.Kind() == types.Bool || t.Kind() == types.UntypedBool:
			return mkBool(constantBool(c))
		case isInteger(t):
			w, signed := intWidth(t)
			if signed {
				return mkBV(w, uint64(c.Int64()))
			}
			return mkBV(w, c.Uint64())
		case t.Kind() == types.Float32:
			return mkFP(32, c.Float64())
		case t.Kind() == types.Float64 || t.Kind() == types.UntypedFloat:
			return mkFP(64, c.Float64())
		case t.Kind() == types.String || t.Kind() == types.UntypedString:
			return mkStr(constantString(c))
		}
	}
	panic(unsupported(fmt.Sprintf("constant %v of type %v", c, c.Type())))
}

// ---------------------------------------------------------------------

func (fr *frame) runDefer(d *deferred) {
	var ok bool
	defer func() {
		if !ok {
			r := recover()
			if isEngineAbort(r) {
				panic(r)
			}
			fr.panicking = true
			fr.panic = r
		}
	}()
	fr.m.call(fr, d.fn, d.args)
	ok = true
}

func isEngineAbort(r interface{}) bool {
	switch r.(type) {
	case targetPanic:
		return false
	}
	return true
}

func (fr *frame) runDefers() {
	for d := fr.defers; d != nil; d = d.tail {
		fr.runDefer(d)
	}
	fr.defers = nil
	if fr.panicking {
		panic(fr.panic)
	}
}

func (m *Machine) rtPanic(fr *frame, msg string) {
	panic(targetPanic{v: iface{t: m.prog.rtErrType, v: mkStr("runtime error: " + msg)}, site: siteName(fr.fn), msg: "runtime error: " + msg})
}

func (m *Machine) call(caller *frame, fn value, args []value) value {
	switch fn := fn.(type) {
	case *ssa.Function:
		if fn == nil {
			m.rtPanic(caller, "invalid memory address or nil pointer dereference (call of nil func)")
		}
		return m.callSSA(caller, fn, args, nil)
	case *closure:
		return m.callSSA(caller, fn.Fn, args, fn.Env)
	case *ssa.Builtin:
		return m.callBuiltin(caller, fn, args)
	case rtErrorMethod:
		return args[0]
	}
	panic(fmt.Sprintf("engine: cannot call %T", fn))
}

func (m *Machine) callSSA(caller *frame, fn *ssa.Function, args []value, env []value) value {
	fr := &frame{m: m, caller: caller, fn: fn}
	if fn.Parent() == nil {
		name := fn.String()
		if h, ok := intrinsics[fn.Name()]; ok && fn.Blocks == nil {
			return h(fr, args)
		}
		if h, ok := summaries[name]; ok {
			return h(fr, args)
		}
		if fn.Blocks == nil {
			panic(unsupported("no code for function " + name))
		}
		if fn.Name() == "init" && fn.Pkg != nil && !m.prog.shouldInit(fn.Pkg) {
			return nil
		}
	}
	if fn.TypeParams().Len() > 0 && len(fn.TypeArgs()) == 0 {
		panic(unsupported("uninstantiated generic function " + fn.String()))
	}
	m.depth++
	if m.depth > 400 {
		m.depth--
		panic(pathEnd{"budget: call depth in " + fn.String()})
	}
	m.res.Funcs[fn] = struct{}{}
	fr.info = m.prog.info(fn)
	fr.env = make([]value, fr.info.n)
	fr.block = fn.Blocks[0]
	fr.locals = make([]value, len(fn.Locals))
	for i, l := range fn.Locals {
		fr.locals[i] = zero(deref(l.Type()))
		fr.env[fr.info.slots[l]] = &fr.locals[i]
		if m.wsActive {
			m.registerFresh(&fr.locals[i])
		}
	}
	for i, p := range fn.Params {
		fr.env[fr.info.slots[p]] = args[i]
	}
	for i, fv := range fn.FreeVars {
		fr.env[fr.info.slots[fv]] = env[i]
	}
	for fr.block != nil {
		m.runFrame(fr)
	}
	m.depth--
	return fr.result
}

func (m *Machine) runFrame(fr *frame) {
	defer func() {
		if fr.block == nil {
			return // normal return
		}
		r := recover()
		if isEngineAbort(r) {
			panic(r)
		}
		fr.panicking = true
		fr.panic = r
		fr.runDefers() // re-panics unless recovered
		fr.block = fr.fn.Recover
		if fr.block == nil {
			// recovered in a function without named results: zero results
			fr.result = zeroResults(fr.fn)
		}
	}()
	for {
		nonPhis := m.executePhis(fr)
		for _, instr := range nonPhis {
			m.steps++
			if m.steps > m.budget {
				panic(pathEnd{"budget: step budget exceeded in " + fr.fn.String()})
			}
			if m.visitInstr(fr, instr) == kReturn {
				return
			}
		}
	}
}

func zeroResults(fn *ssa.Function) value {
	res := fn.Signature.Results()
	switch res.Len() {
	case 0:
		return nil
	case 1:
		return zero(res.At(0).Type())
	}
	return zero(res)
}

func (m *Machine) executePhis(fr *frame) []ssa.Instruction {
	firstNonPhi := -1
	for i, instr := range fr.block.Instrs {
		if _, ok := instr.(*ssa.Phi); !ok {
			firstNonPhi = i
			break
		}
	}
	nonPhis := fr.block.Instrs[firstNonPhi:]
	if firstNonPhi > 0 {
		phis := fr.block.Instrs[:firstNonPhi]
		predIndex := -1
		for i, p := range fr.block.Preds {
			if p == fr.prevBlock {
				predIndex = i
				break
			}
		}
		fr.phitemps = fr.phitemps[:0]
		for _, phi := range phis {
			fr.phitemps = append(fr.phitemps, fr.get(phi.(*ssa.Phi).Edges[predIndex]))
		}
		for i, phi := range phis {
			fr.set(phi.(*ssa.Phi), fr.phitemps[i])
		}
	}
	return nonPhis
}

type continuation int

const (
	kNext continuation = iota
	kReturn
	kJump
)

func (m *Machine) visitInstr(fr *frame, instr ssa.Instruction) continuation {
	switch instr := instr.(type) {
	case *ssa.DebugRef:

	case *ssa.UnOp:
		fr.set(instr, m.unop(fr, instr, fr.get(instr.X)))

	case *ssa.BinOp:
		if instr.Op == token.SHL || instr.Op == token.SHR {
			fr.set(instr, m.shift(fr, instr, fr.get(instr.X).(*Term), fr.get(instr.Y).(*Term)))
		} else {
			fr.set(instr, m.binop(fr, instr.Op, instr.X.Type(), fr.get(instr.X), fr.get(instr.Y)))
		}

	case *ssa.Call:
		fn, args := m.prepareCall(fr, &instr.Call)
		r := m.call(fr, fn, args)
		if r == nil {
			r = tuple(nil)
		}
		fr.set(instr, r)

	case *ssa.ChangeInterface:
		fr.set(instr, fr.get(instr.X))

	case *ssa.ChangeType:
		fr.set(instr, fr.get(instr.X))

	case *ssa.Convert:
		fr.set(instr, m.conv(fr, instr.Type(), instr.X.Type(), fr.get(instr.X)))

	case *ssa.MakeInterface:
		fr.set(instr, iface{t: instr.X.Type(), v: fr.get(instr.X)})

	case *ssa.Extract:
		fr.set(instr, fr.get(instr.Tuple).(tuple)[instr.Index])

	case *ssa.Slice:
		fr.set(instr, m.slice(fr, instr, fr.get(instr.X), fr.get(instr.Low), fr.get(instr.High), fr.get(instr.Max)))

	case *ssa.Return:
		switch len(instr.Results) {
		case 0:
		case 1:
			fr.result = fr.get(instr.Results[0])
		default:
			res := make(tuple, 0, len(instr.Results))
			for _, r := range instr.Results {
				res = append(res, fr.get(r))
			}
			fr.result = res
		}
		fr.block = nil
		return kReturn

	case *ssa.RunDefers:
		fr.runDefers()

	case *ssa.Panic:
		v := fr.get(instr.X)
		panic(targetPanic{v: v, site: siteName(fr.fn), msg: panicMsg(v)})

	case *ssa.Store:
		m.store(fr, deref(instr.Addr.Type()), fr.get(instr.Addr), fr.get(instr.Val))

	case *ssa.If:
		succ := 1
		if m.branch(fr.get(instr.Cond).(*Term)) {
			succ = 0
		}
		fr.prevBlock, fr.block = fr.block, fr.block.Succs[succ]
		return kJump

	case *ssa.Jump:
		fr.prevBlock, fr.block = fr.block, fr.block.Succs[0]
		return kJump

	case *ssa.Defer:
		fn, args := m.prepareCall(fr, &instr.Call)
		fr.defers = &deferred{fn: fn, args: args, instr: instr, tail: fr.defers}

	case *ssa.Alloc:
		var addr *value
		if instr.Heap {
			addr = new(value)
			fr.set(instr, addr)
		} else {
			addr = fr.env[fr.info.slots[instr]].(*value)
		}
		*addr = zero(deref(instr.Type()))
		if m.wsActive {
			m.registerFresh(addr)
		}

	case *ssa.MakeSlice:
		n := m.concretize(fr.get(instr.Len).(*Term), 8, "make len")
		c := m.concretize(fr.get(instr.Cap).(*Term), 8, "make cap")
		if n < 0 || c < n || c > 1<<24 {
			m.rtPanic(fr, "makeslice: len out of range")
		}
		s := make([]value, c)
		tElt := instr.Type().Underlying().(*types.Slice).Elem()
		for i := range s {
			s[i] = zero(tElt)
			if m.wsActive {
				m.registerFresh(&s[i])
			}
		}
		fr.set(instr, s[:n])

	case *ssa.MakeMap:
		mv := &MapV{kt: instr.Type().Underlying().(*types.Map).Key()}
		if m.wsActive {
			m.freshMaps[mv] = true
		}
		fr.set(instr, mv)

	case *ssa.Range:
		x := fr.get(instr.X)
		switch x := x.(type) {
		case *MapV:
			fr.set(instr, &mapIter{m: x})
		case Str:
			m.needConcreteStr(x, "range")
			fr.set(instr, &strIter{s: x, off: mkInt(64, 0)})
		default:
			panic(unsupported(fmt.Sprintf("range over %T", x)))
		}

	case *ssa.Next:
		if si, ok := fr.get(instr.Iter).(*strIter); ok {
			if si.i >= len(si.s.R) {
				fr.set(instr, tuple{falseT, mkInt(64, 0), mkBV(32, 0)})
			} else {
				r := si.s.R[si.i]
				fr.set(instr, tuple{trueT, si.off, m.sanitizeRune(r)})
				si.off = m.ctx.Add(si.off, m.utf8Len(r))
				si.i++
			}
			break
		}
		it := fr.get(instr.Iter).(*mapIter)
		if it.m == nil || it.i >= len(it.m.keys) {
			fr.set(instr, tuple{falseT, zero(instr.Type().(*types.Tuple).At(1).Type()), zero(instr.Type().(*types.Tuple).At(2).Type())})
		} else {
			fr.set(instr, tuple{trueT, it.m.keys[it.i], copyVal(it.m.vals[it.i])})
			it.i++
		}

	case *ssa.FieldAddr:
		p, ok := fr.get(instr.X).(*value)
		if !ok {
			panic(unsupported("FieldAddr through symbolic reference"))
		}
		if p == nil {
			m.rtPanic(fr, "invalid memory address or nil pointer dereference")
		}
		fr.set(instr, &(*p).(structure)[instr.Field])

	case *ssa.Field:
		fr.set(instr, copyVal(fr.get(instr.X).(structure)[instr.Field]))

	case *ssa.IndexAddr:
		x := fr.get(instr.X)
		idx := fr.get(instr.Index).(*Term)
		var cells []value
		switch x := x.(type) {
		case []value:
			cells = x
		case *value:
			if x == nil {
				m.rtPanic(fr, "invalid memory address or nil pointer dereference")
			}
			cells = (*x).(array)
		default:
			panic(fmt.Sprintf("engine: IndexAddr on %T", x))
		}
		fr.set(instr, m.indexAddr(fr, cells, idx, instr.Index.Type()))

	case *ssa.Index:
		x := fr.get(instr.X)
		idx := fr.get(instr.Index).(*Term)
		switch x := x.(type) {
		case array:
			r := m.indexAddr(fr, x, idx, instr.Index.Type())
			fr.set(instr, m.load(fr, r))
		case Str:
			fr.set(instr, m.strIndex(fr, x, idx))
		default:
			panic(fmt.Sprintf("engine: Index on %T", x))
		}

	case *ssa.Lookup:
		fr.set(instr, m.lookup(fr, instr, fr.get(instr.X), fr.get(instr.Index)))

	case *ssa.MapUpdate:
		mp := fr.get(instr.Map).(*MapV)
		if mp == nil {
			panic(targetPanic{v: iface{t: m.prog.rtErrType, v: mkStr("assignment to entry in nil map")}, site: siteName(fr.fn), msg: "assignment to entry in nil map"})
		}
		m.mapUpdate(fr, mp, fr.get(instr.Key), fr.get(instr.Value))

	case *ssa.TypeAssert:
		fr.set(instr, m.typeAssert(fr, instr, fr.get(instr.X).(iface)))

	case *ssa.MakeClosure:
		var bindings []value
		for _, b := range instr.Bindings {
			bindings = append(bindings, fr.get(b))
		}
		fr.set(instr, &closure{instr.Fn.(*ssa.Function), bindings})

	case *ssa.Phi:
		panic("engine: phi")

	default:
		panic(unsupported(fmt.Sprintf("instruction %T in %s", instr, fr.fn)))
	}
	return kNext
}

func panicMsg(v value) string {
	if i, ok := v.(iface); ok {
		if s, ok := i.v.(Str); ok {
			return s.String()
		}
		return fmt.Sprintf("%v", i.t)
	}
	return fmt.Sprintf("%T", v)
}

func (m *Machine) prepareCall(fr *frame, call *ssa.CallCommon) (fn value, args []value) {
	v := fr.get(call.Value)
	if call.Method == nil {
		fn = v
	} else {
		recv := v.(iface)
		if recv.t == nil {
			m.rtPanic(fr, "invalid memory address or nil pointer dereference (method on nil interface)")
		}
		if recv.t == m.prog.rtErrType {
			if call.Method.Name() == "Error" {
				return rtErrorMethod{}, []value{recv.v}
			}
			panic(unsupported("method " + call.Method.Name() + " on a run-time error value"))
		}
		f := m.prog.lookupMethod(recv.t, call.Method)
		if f == nil {
			panic(fmt.Sprintf("engine: method set of %v lacks %s", recv.t, call.Method))
		}
		fn = f
		args = append(args, recv.v)
	}
	for _, arg := range call.Args {
		args = append(args, fr.get(arg))
	}
	return
}

func (p *Program) lookupMethod(t types.Type, meth *types.Func) *ssa.Function {
	p.methodSets.Lock()
	defer p.methodSets.Unlock()
	return p.prog.LookupMethod(t, meth.Pkg(), meth.Name())
}

// ---------------------------------------------------------------------
// memory

func (m *Machine) registerFresh(p *value) {
	if m.cellBorn == nil {
		m.cellBorn = map[*value]int64{}
	}
	m.cellBorn[p] = 1
	switch v := (*p).(type) {
	case structure:
		for i := range v {
			m.registerFresh(&v[i])
		}
	case array:
		for i := range v {
			m.registerFresh(&v[i])
		}
	}
}

// isHarnessFn: the function is part of the overlay (harness / seam) sources.
func (m *Machine) isHarnessFn(fn *ssa.Function) bool {
	if v, ok := m.prog.harnessFn.Load(fn); ok {
		return v.(bool)
	}
	f := fn
	for f.Parent() != nil {
		f = f.Parent()
	}
	res := false
	if f.Pos().IsValid() {
		res = strings.Contains(m.prog.fset.Position(f.Pos()).Filename, "zz_verif_")
	}
	m.prog.harnessFn.Store(fn, res)
	return res
}

func (m *Machine) noteWrite(fr *frame, p *value) {
	if !m.wsActive {
		return
	}
	if fr == nil || m.isHarnessFn(fr.fn) {
		return // stores performed by the harness itself are not the library's
	}
	if _, ok := m.cellBorn[p]; ok {
		return
	}
	site := fr.fn.String()
	for _, h := range m.wsHits {
		if h == site {
			return
		}
	}
	m.wsHits = append(m.wsHits, site)
}

func (m *Machine) load(fr *frame, addr value) value {
	switch a := addr.(type) {
	case *value:
		if a == nil {
			m.rtPanic(fr, "invalid memory address or nil pointer dereference")
		}
		return copyVal(*a)
	case SymRef:
		return m.loadSym(fr, a)
	}
	panic(fmt.Sprintf("engine: load from %T", addr))
}

// loadSym reads base[idx] for a symbolic idx (already known in range):
// cells are grouped by value; one alternative per distinct value.
func (m *Machine) loadSym(fr *frame, r SymRef) value {
	type group struct {
		v    value
		idxs []int
	}
	var groups []*group
	allScalar := true
	for i, c := range r.base {
		if _, ok := c.(*Term); !ok {
			allScalar = false
		}
		found := false
		for _, g := range groups {
			if shallowEqual(g.v, c) {
				g.idxs = append(g.idxs, i)
				found = true
				break
			}
		}
		if !found {
			groups = append(groups, &group{v: c, idxs: []int{i}})
		}
	}
	if len(groups) == 1 {
		return copyVal(groups[0].v)
	}
	c := m.ctx
	if allScalar && len(groups) <= 64 {
		// build an ite chain instead of forking
		var res *Term = groups[len(groups)-1].v.(*Term)
		for gi := len(groups) - 2; gi >= 0; gi-- {
			res = c.Ite(m.inSet(r.idx, groups[gi].idxs), groups[gi].v.(*Term), res)
		}
		return res
	}
	conds := make([]*Term, len(groups))
	for i, g := range groups {
		conds[i] = m.inSet(r.idx, g.idxs)
	}
	d := m.decide(conds)
	return copyVal(groups[d].v)
}

// inSet builds idx ∈ {sorted ints} as a disjunction of ranges.
func (m *Machine) inSet(idx *Term, xs []int) *Term {
	c := m.ctx
	var res *Term = falseT
	i := 0
	for i < len(xs) {
		j := i
		for j+1 < len(xs) && xs[j+1] == xs[j]+1 {
			j++
		}
		lo, hi := mkInt(idx.S.W, int64(xs[i])), mkInt(idx.S.W, int64(xs[j]))
		var t *Term
		if i == j {
			t = c.Eq(idx, lo)
		} else {
			t = c.And(c.Sle(lo, idx), c.Sle(idx, hi))
		}
		res = c.Or(res, t)
		i = j + 1
	}
	return res
}

func shallowEqual(a, b value) bool {
	switch a := a.(type) {
	case *Term:
		bt, ok := b.(*Term)
		return ok && same(a, bt)
	case *value:
		bp, ok := b.(*value)
		return ok && a == bp
	case iface:
		bi, ok := b.(iface)
		if !ok {
			return false
		}
		if a.t == nil || bi.t == nil {
			return a.t == nil && bi.t == nil
		}
		return types.Identical(a.t, bi.t) && shallowEqual(a.v, bi.v)
	case Str:
		bs, ok := b.(Str)
		if !ok || len(a.R) != len(bs.R) || a.Opaque || bs.Opaque {
			return false
		}
		for i := range a.R {
			if !same(a.R[i], bs.R[i]) {
				return false
			}
		}
		return true
	case *ssa.Function:
		bf, ok := b.(*ssa.Function)
		return ok && a == bf
	case *closure:
		bc, ok := b.(*closure)
		return ok && a == bc
	case *MapV:
		bm, ok := b.(*MapV)
		return ok && a == bm
	case []value:
		bs, ok := b.([]value)
		if !ok {
			return false
		}
		if len(a) != len(bs) || cap(a) != cap(bs) {
			return false
		}
		if cap(a) == 0 {
			return (a == nil) == (bs == nil)
		}
		return &a[:1][0] == &bs[:1][0]
	case nil:
		return b == nil
	}
	return false
}

func (m *Machine) store(fr *frame, t types.Type, addr value, v value) {
	switch a := addr.(type) {
	case *value:
		if a == nil {
			m.rtPanic(fr, "invalid memory address or nil pointer dereference")
		}
		m.storeCell(fr, t, a, v)
	case SymRef:
		i := m.concretize(a.idx, 256, "store index")
		m.storeCell(fr, t, &a.base[i], v)
	default:
		panic(fmt.Sprintf("engine: store to %T", addr))
	}
}

func (m *Machine) storeCell(fr *frame, t types.Type, a *value, v value) {
	switch lhs := (*a).(type) {
	case structure:
		rhs := v.(structure)
		st := t.Underlying().(*types.Struct)
		for i := range lhs {
			m.storeCell(fr, st.Field(i).Type(), &lhs[i], rhs[i])
		}
		return
	case array:
		rhs := v.(array)
		et := t.Underlying().(*types.Array).Elem()
		for i := range lhs {
			m.storeCell(fr, et, &lhs[i], rhs[i])
		}
		return
	}
	m.noteWrite(fr, a)
	*a = v
}

// indexAddr returns the address of cells[idx], forking on the bounds check.
func (m *Machine) indexAddr(fr *frame, cells []value, idx *Term, it types.Type) value {
	idx = m.toInt64(idx, it)
	idx = m.simplify(idx)
	n := int64(len(cells))
	if idx.IsConst() {
		i := idx.Int()
		if i < 0 || i >= n {
			m.rtPanic(fr, fmt.Sprintf("index out of range [%d] with length %d", i, n))
		}
		return &cells[i]
	}
	c := m.ctx
	inr := c.And(c.Sle(mkInt(64, 0), idx), c.Slt(idx, mkInt(64, n)))
	if !m.branch(inr) {
		m.rtPanic(fr, fmt.Sprintf("index out of range [symbolic] with length %d", n))
	}
	idx = m.simplify(idx)
	if idx.IsConst() {
		return &cells[idx.Int()]
	}
	return SymRef{base: cells, idx: idx}
}

func (m *Machine) toInt64(t *Term, typ types.Type) *Term {
	if t.S.W == 64 {
		return t
	}
	signed := true
	if b, ok := typ.Underlying().(*types.Basic); ok {
		_, signed = intWidth(b)
	}
	return m.ctx.Resize(t, 64, signed)
}

// ---------------------------------------------------------------------

func (m *Machine) typeAssert(fr *frame, instr *ssa.TypeAssert, itf iface) value {
	var ok bool
	var v value
	if idst, isI := instr.AssertedType.Underlying().(*types.Interface); isI {
		v = itf
		if itf.t != nil {
			ok = m.prog.implements(itf.t, idst)
		}
	} else {
		if itf.t != nil && types.Identical(itf.t, instr.AssertedType) {
			v = copyVal(itf.v)
			ok = true
		}
	}
	if !ok {
		if instr.CommaOk {
			return tuple{zero(instr.AssertedType), falseT}
		}
		q := func(p *types.Package) string { return p.Name() }
		src := "nil"
		if itf.t != nil {
			src = types.TypeString(itf.t, q)
		}
		xt := types.TypeString(instr.X.Type(), q)
		if xt == "any" {
			xt = "interface {}"
		}
		msg := fmt.Sprintf("interface conversion: %s is %s, not %s", xt, src, types.TypeString(instr.AssertedType, q))
		if itf.t == nil {
			msg = fmt.Sprintf("interface conversion: interface is nil, not %s", types.TypeString(instr.AssertedType, q))
		}
		panic(targetPanic{v: iface{t: m.prog.rtErrType, v: mkStr(msg)}, site: siteName(fr.fn), msg: msg})
	}
	if instr.CommaOk {
		return tuple{v, trueT}
	}
	return v
}

func (p *Program) implements(t types.Type, i *types.Interface) bool {
	p.methodSets.Lock()
	defer p.methodSets.Unlock()
	if t == p.rtErrType {
		// run-time errors implement error (and runtime.Error)
		for k := 0; k < i.NumMethods(); k++ {
			if n := i.Method(k).Name(); n != "Error" && n != "RuntimeError" {
				return false
			}
		}
		return true
	}
	return types.Implements(t, i)
}

func (p *Program) shouldInit(pkg *ssa.Package) bool {
	return strings.HasPrefix(pkg.Pkg.Path(), p.repoPrefix)
}
