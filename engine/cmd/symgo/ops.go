package main

import (
	"fmt"
	"go/constant"
	"go/token"
	"go/types"

	"golang.org/x/tools/go/ssa"
)

func constantBool(c *ssa.Const) bool     { return constant.BoolVal(c.Value) }
func constantString(c *ssa.Const) string { return constant.StringVal(c.Value) }

func basicOf(t types.Type) *types.Basic {
	b, _ := t.Underlying().(*types.Basic)
	return b
}

func (m *Machine) unop(fr *frame, instr *ssa.UnOp, x value) value {
	c := m.ctx
	switch instr.Op {
	case token.MUL: // load
		return m.load(fr, x)
	case token.NOT:
		return c.Not(x.(*Term))
	case token.SUB:
		t := x.(*Term)
		if t.S.K == KFP {
			return c.FNeg(t)
		}
		return c.Neg(t)
	case token.XOR:
		return c.BNot(x.(*Term))
	case token.ARROW:
		panic(unsupported("channel receive"))
	}
	panic(fmt.Sprintf("engine: unop %v", instr.Op))
}

func (m *Machine) binop(fr *frame, op token.Token, t types.Type, x, y value) value {
	c := m.ctx
	switch xv := x.(type) {
	case *Term:
		yv := y.(*Term)
		b := basicOf(t)
		if xv.S.K == KBool {
			switch op {
			case token.EQL:
				return c.Eq(xv, yv)
			case token.NEQ:
				return c.Not(c.Eq(xv, yv))
			case token.LAND, token.AND:
				return c.And(xv, yv)
			case token.LOR, token.OR:
				return c.Or(xv, yv)
			}
			panic(fmt.Sprintf("engine: bool binop %v", op))
		}
		if xv.S.K == KFP {
			switch op {
			case token.ADD:
				return c.FAdd(xv, yv)
			case token.SUB:
				return c.FSub(xv, yv)
			case token.MUL:
				return c.FMul(xv, yv)
			case token.QUO:
				return c.FDiv(xv, yv)
			case token.EQL:
				return c.FEq(xv, yv)
			case token.NEQ:
				return c.Not(c.FEq(xv, yv))
			case token.LSS:
				return c.FLt(xv, yv)
			case token.LEQ:
				return c.FLe(xv, yv)
			case token.GTR:
				return c.FLt(yv, xv)
			case token.GEQ:
				return c.FLe(yv, xv)
			}
			panic(fmt.Sprintf("engine: float binop %v", op))
		}
		signed := true
		if b != nil {
			_, signed = intWidth(b)
		}
		switch op {
		case token.ADD:
			return c.Add(xv, yv)
		case token.SUB:
			return c.Sub(xv, yv)
		case token.MUL:
			return c.Mul(xv, yv)
		case token.QUO, token.REM:
			ys := m.simplify(yv)
			if m.branch(c.Eq(ys, mkBV(ys.S.W, 0))) {
				m.rtPanic(fr, "integer divide by zero")
			}
			if signed {
				// Go: MinInt / -1 wraps to MinInt, MinInt % -1 == 0; SMT bvsdiv/bvsrem agree.
				if op == token.QUO {
					return c.SDiv(xv, yv)
				}
				return c.SRem(xv, yv)
			}
			if op == token.QUO {
				return c.UDiv(xv, yv)
			}
			return c.URem(xv, yv)
		case token.AND:
			return c.BAnd(xv, yv)
		case token.OR:
			return c.BOr(xv, yv)
		case token.XOR:
			return c.BXor(xv, yv)
		case token.AND_NOT:
			return c.BAnd(xv, c.BNot(yv))
		case token.SHL, token.SHR:
			// shift count type comes from y's own term width; signedness
			// unknown here: binopShift is used by the caller for that.
			panic("engine: shift must go through shift()")
		case token.EQL:
			return c.Eq(xv, yv)
		case token.NEQ:
			return c.Not(c.Eq(xv, yv))
		case token.LSS:
			if signed {
				return c.Slt(xv, yv)
			}
			return c.Ult(xv, yv)
		case token.LEQ:
			if signed {
				return c.Sle(xv, yv)
			}
			return c.Ule(xv, yv)
		case token.GTR:
			if signed {
				return c.Slt(yv, xv)
			}
			return c.Ult(yv, xv)
		case token.GEQ:
			if signed {
				return c.Sle(yv, xv)
			}
			return c.Ule(yv, xv)
		}
		panic(fmt.Sprintf("engine: int binop %v", op))
	case Str:
		yv := y.(Str)
		switch op {
		case token.ADD:
			if xv.Opaque || yv.Opaque {
				// the opaque part is kept as one tag describing the whole text
				return Str{Opaque: true, OTag: xv.repr() + "+" + yv.repr()}
			}
			return m.joinStr(xv, yv)
		case token.EQL:
			return m.strEq(xv, yv)
		case token.NEQ:
			return c.Not(m.strEq(xv, yv))
		case token.LSS:
			return m.strLess(xv, yv, false)
		case token.LEQ:
			return m.strLess(xv, yv, true)
		case token.GTR:
			return m.strLess(yv, xv, false)
		case token.GEQ:
			return m.strLess(yv, xv, true)
		}
		panic(fmt.Sprintf("engine: string binop %v", op))
	}
	// reference / composite equality
	switch op {
	case token.EQL:
		return m.equals(fr, t, x, y)
	case token.NEQ:
		return c.Not(m.equals(fr, t, x, y))
	}
	panic(fmt.Sprintf("engine: binop %v on %T", op, x))
}

func (m *Machine) shift(fr *frame, instr *ssa.BinOp, x, y *Term) value {
	c := m.ctx
	xb := basicOf(instr.X.Type())
	yb := basicOf(instr.Y.Type())
	_, xs := intWidth(xb)
	_, ys := intWidth(yb)
	if yb.Info()&types.IsUntyped != 0 {
		ys = false
	}
	w := x.S.W
	if ys {
		if m.branch(c.Slt(y, mkBV(y.S.W, 0))) {
			m.rtPanic(fr, "negative shift amount")
		}
	}
	// clamp the count to w, in y's width, then resize
	yc := c.Ite(c.Ult(y, mkBV(y.S.W, uint64(w))), y, mkBV(y.S.W, uint64(w)))
	yc = c.Resize(yc, w, false)
	if instr.Op == token.SHL {
		return c.Shl(x, yc)
	}
	if xs {
		return c.AShr(x, yc)
	}
	return c.LShr(x, yc)
}

// equals implements == for non-scalar, non-string operands.
func (m *Machine) equals(fr *frame, t types.Type, x, y value) *Term {
	c := m.ctx
	switch xv := x.(type) {
	case *Term:
		yv := y.(*Term)
		if xv.S.K == KFP {
			return c.FEq(xv, yv)
		}
		return c.Eq(xv, yv)
	case Str:
		return m.strEq(xv, y.(Str))
	case *value:
		yv, ok := y.(*value)
		if !ok {
			if sr, ok2 := y.(SymRef); ok2 {
				_ = sr
				panic(unsupported("comparison of symbolic references"))
			}
		}
		return mkBool(xv == yv)
	case iface:
		yv := y.(iface)
		if xv.t == nil || yv.t == nil {
			return mkBool(xv.t == nil && yv.t == nil)
		}
		if !types.Identical(xv.t, yv.t) {
			return falseT
		}
		if !types.Comparable(xv.t) {
			msg := "runtime error: comparing uncomparable type " + shortPkg(typeString(xv.t))
			panic(targetPanic{v: iface{t: m.prog.rtErrType, v: mkStr(msg)}, site: siteName(fr.fn), msg: msg})
		}
		return m.equals(fr, xv.t, xv.v, yv.v)
	case structure:
		yv := y.(structure)
		st := t.Underlying().(*types.Struct)
		var res *Term = trueT
		for i := range xv {
			if st.Field(i).Name() == "_" {
				continue
			}
			res = c.And(res, m.equals(fr, st.Field(i).Type(), xv[i], yv[i]))
		}
		return res
	case array:
		yv := y.(array)
		et := t.Underlying().(*types.Array).Elem()
		var res *Term = trueT
		for i := range xv {
			res = c.And(res, m.equals(fr, et, xv[i], yv[i]))
		}
		return res
	case []value:
		yv := y.([]value)
		// only comparison with nil is legal
		if yv == nil {
			return mkBool(xv == nil)
		}
		if xv == nil {
			return mkBool(yv == nil)
		}
		panic("engine: slice comparison")
	case *MapV:
		yv := y.(*MapV)
		return mkBool(xv == yv)
	case *ssa.Function:
		switch yv := y.(type) {
		case *ssa.Function:
			return mkBool(xv == yv)
		case *closure:
			return mkBool(xv == nil && yv == nil)
		}
	case *closure:
		switch yv := y.(type) {
		case *ssa.Function:
			return mkBool(xv == nil && yv == nil)
		case *closure:
			return mkBool(xv == yv)
		}
	case nil:
		return mkBool(y == nil)
	}
	panic(fmt.Sprintf("engine: equals on %T, %T", x, y))
}

// ---------------------------------------------------------------------
// conversions

func (m *Machine) conv(fr *frame, tdst, tsrc types.Type, x value) value {
	c := m.ctx
	ud := tdst.Underlying()
	us := tsrc.Underlying()
	switch us := us.(type) {
	case *types.Pointer, *types.Signature, *types.Struct, *types.Array, *types.Map, *types.Interface:
		return x
	case *types.Slice:
		// []rune / []byte -> string
		if db, ok := ud.(*types.Basic); ok && db.Info()&types.IsString != 0 {
			eb := basicOf(us.Elem())
			s := x.([]value)
			if eb != nil && eb.Kind() == types.Int32 {
				r := make([]*Term, len(s))
				for i, e := range s {
					r[i] = m.sanitizeRune(e.(*Term))
				}
				return Str{R: r}
			}
			if eb != nil && eb.Kind() == types.Uint8 {
				bs := make([]*Term, len(s))
				for i, e := range s {
					bs[i] = e.(*Term)
				}
				return m.bytesToStr(bs)
			}
		}
		return x
	case *types.Basic:
		xt, isTerm := x.(*Term)
		if db, ok := ud.(*types.Basic); ok {
			if db.Info()&types.IsString != 0 {
				if us.Info()&types.IsString != 0 {
					return x
				}
				if isInteger(us) {
					// string(rune)
					r := xt
					w, signed := intWidth(us)
					_ = w
					r64 := c.Resize(r, 64, signed)
					// out of int32 range or invalid -> U+FFFD
					inr := c.And(c.Sle(mkInt(64, 0), r64), c.Sle(r64, mkInt(64, 0x10FFFF)))
					r32 := c.Resize(r64, 32, true)
					if r.Valid && r.S.W == 32 {
						return Str{R: []*Term{r}}
					}
					sr := c.Ite(inr, m.sanitizeRune(r32), mkBV(32, 0xFFFD))
					return Str{R: []*Term{sr}}
				}
			}
			if isInteger(db) {
				dw, _ := intWidth(db)
				if isInteger(us) {
					_, ss := intWidth(us)
					return c.Resize(xt, dw, ss)
				}
				if isFloat(us) {
					_, ds := intWidth(db)
					return c.FPToInt(xt, dw, ds)
				}
			}
			if isFloat(db) {
				dw := 64
				if db.Kind() == types.Float32 {
					dw = 32
				}
				if isInteger(us) {
					_, ss := intWidth(us)
					return c.IntToFP(xt, dw, ss)
				}
				if isFloat(us) {
					return c.FToFP(xt, dw)
				}
			}
			if db.Kind() == types.Bool && isTerm {
				return x
			}
			if db.Kind() == types.UnsafePointer {
				return x
			}
		}
		if ds, ok := ud.(*types.Slice); ok && us.Info()&types.IsString != 0 {
			s := x.(Str)
			if s.Opaque {
				panic(unsupported("conversion of opaque string to slice"))
			}
			eb := basicOf(ds.Elem())
			if eb.Kind() == types.Int32 {
				n := len(s.R)
				cp := nativeRuneSliceCap(n)
				out := make([]value, cp)
				for i := range out {
					if i < n {
						out[i] = m.sanitizeRune(s.R[i])
					} else {
						out[i] = mkBV(32, 0)
					}
					if m.wsActive {
						m.registerFresh(&out[i])
					}
				}
				return out[:n]
			}
			if eb.Kind() == types.Uint8 {
				if gs, ok := s.Concrete(); ok {
					bs := []byte(gs)
					out := make([]value, len(bs))
					for i, b := range bs {
						out[i] = mkBV(8, uint64(b))
					}
					return out
				}
				bs := m.strBytes(s)
				out := make([]value, len(bs))
				for i, b := range bs {
					out[i] = b
				}
				return out
			}
		}
	}
	panic(unsupported(fmt.Sprintf("conversion %v -> %v", tsrc, tdst)))
}

// sanitizeRune maps surrogates / out-of-range values to U+FFFD
// (what encoding a rune into a string does).
func (m *Machine) sanitizeRune(r *Term) *Term {
	c := m.ctx
	if r.IsConst() {
		v := int64(int32(r.U))
		if validRune(v) {
			return r
		}
		return mkBV(32, 0xFFFD)
	}
	if r.Valid {
		return r
	}
	ok := c.Or(
		c.And(c.Sle(mkBV(32, 0), r), c.Slt(r, mkBV(32, 0xD800))),
		c.And(c.Slt(mkBV(32, 0xDFFF), r), c.Sle(r, mkBV(32, 0x10FFFF))))
	t := c.Ite(ok, r, mkBV(32, 0xFFFD))
	t.Valid = true
	return t
}

func nativeRuneSliceCap(n int) int {
	s := make([]byte, 0, n)
	for i := 0; i < n; i++ {
		s = append(s, 'a')
	}
	r := escapeRunes([]rune(string(s)))
	return cap(r)
}

var sinkRunes []rune

//go:noinline
func escapeRunes(r []rune) []rune { sinkRunes = r; return r }

// ---------------------------------------------------------------------
// slices

func (m *Machine) slice(fr *frame, instr *ssa.Slice, x, lo, hi, max value) value {
	var ln, cp int64
	var cells []value
	var str *Str
	switch xv := x.(type) {
	case []value:
		cells = xv
		ln, cp = int64(len(xv)), int64(cap(xv))
	case *value: // *array
		if xv == nil {
			m.rtPanic(fr, "invalid memory address or nil pointer dereference")
		}
		a := (*xv).(array)
		cells = a
		ln, cp = int64(len(a)), int64(len(a))
	case Str:
		str = &xv
		ln = int64(len(xv.R)) // (rune count; the byte length is resolved below when needed)
		cp = ln
	default:
		panic(fmt.Sprintf("engine: slice of %T", x))
	}
	l := int64(0)
	if lo != nil {
		l = m.concretize(m.toInt64(lo.(*Term), instr.Low.Type()), 16, "slice low")
	}
	h := ln
	if hi != nil {
		h = m.concretize(m.toInt64(hi.(*Term), instr.High.Type()), 16, "slice high")
	}
	mx := cp
	if max != nil {
		mx = m.concretize(m.toInt64(max.(*Term), instr.Max.Type()), 16, "slice max")
	}
	if str != nil {
		if gs, ok := str.Concrete(); ok {
			if l < 0 || h < l || h > int64(len(gs)) {
				m.rtPanic(fr, fmt.Sprintf("slice bounds out of range [%d:%d] with length %d", l, h, len(gs)))
			}
			return mkStr(gs[l:h])
		}
		if hi == nil {
			h = 1 << 40
			// open upper bound: up to the end
			total := m.concretize(m.strLen(*str), 64, "string length")
			h = total
		}
		return m.strSlice(fr, *str, l, h)
	}
	if h < 0 || h > cp {
		m.rtPanic(fr, fmt.Sprintf("slice bounds out of range [:%d] with capacity %d", h, cp))
	}
	if l < 0 || l > h {
		m.rtPanic(fr, fmt.Sprintf("slice bounds out of range [%d:%d]", l, h))
	}
	if mx < h || mx > cp {
		m.rtPanic(fr, fmt.Sprintf("slice bounds out of range [::%d] with capacity %d", mx, cp))
	}
	if cells == nil {
		return []value(nil)
	}
	return cells[l:h:mx]
}

// ---------------------------------------------------------------------
// builtins

func (m *Machine) callBuiltin(fr *frame, fn *ssa.Builtin, args []value) value {
	c := m.ctx
	switch fn.Name() {
	case "append":
		s0 := args[0].([]value)
		var add []value
		switch a := args[1].(type) {
		case []value:
			add = a
		case Str:
			gs, ok := a.Concrete()
			if !ok {
				panic(unsupported("append([]byte, symbolic string...)"))
			}
			for _, b := range []byte(gs) {
				add = append(add, mkBV(8, uint64(b)))
			}
		}
		if len(add) == 0 {
			return s0
		}
		n := len(s0) + len(add)
		if n <= cap(s0) {
			r := s0[:n]
			for i, v := range add {
				p := &r[len(s0)+i]
				m.noteWrite(fr, p)
				*p = copyVal(v)
			}
			return r
		}
		et := fn.Type().(*types.Signature).Params().At(0).Type().Underlying().(*types.Slice).Elem()
		newcap := m.prog.growCap(et, len(s0), cap(s0), len(add))
		r := make([]value, newcap)
		for i := range r {
			switch {
			case i < len(s0):
				r[i] = copyVal(s0[i])
			case i < n:
				r[i] = copyVal(add[i-len(s0)])
			default:
				r[i] = zero(et)
			}
			if m.wsActive {
				m.registerFresh(&r[i])
			}
		}
		return r[:n]

	case "copy":
		dst := args[0].([]value)
		var src []value
		switch a := args[1].(type) {
		case []value:
			src = a
		default:
			panic(unsupported("copy from string"))
		}
		n := len(dst)
		if len(src) < n {
			n = len(src)
		}
		tmp := make([]value, n)
		for i := 0; i < n; i++ {
			tmp[i] = copyVal(src[i])
		}
		for i := 0; i < n; i++ {
			m.noteWrite(fr, &dst[i])
			dst[i] = tmp[i]
		}
		return mkInt(64, int64(n))

	case "len":
		switch x := args[0].(type) {
		case Str:
			return m.strLen(x)
		case []value:
			return mkInt(64, int64(len(x)))
		case array:
			return mkInt(64, int64(len(x)))
		case *value:
			return mkInt(64, int64(len((*x).(array))))
		case *MapV:
			if x == nil {
				return mkInt(64, 0)
			}
			return mkInt(64, int64(len(x.keys)))
		}
		panic(fmt.Sprintf("engine: len of %T", args[0]))

	case "cap":
		switch x := args[0].(type) {
		case []value:
			return mkInt(64, int64(cap(x)))
		case array:
			return mkInt(64, int64(len(x)))
		case *value:
			return mkInt(64, int64(len((*x).(array))))
		}
		panic(fmt.Sprintf("engine: cap of %T", args[0]))

	case "delete":
		mp := args[0].(*MapV)
		if mp == nil {
			return nil
		}
		i := m.mapFind(fr, mp, args[1])
		if i >= 0 {
			mp.keys = append(mp.keys[:i:i], mp.keys[i+1:]...)
			mp.vals = append(mp.vals[:i:i], mp.vals[i+1:]...)
		}
		return nil

	case "recover":
		return m.doRecover(fr)

	case "print", "println":
		return nil

	case "min", "max":
		r := args[0].(*Term)
		for _, a := range args[1:] {
			t := a.(*Term)
			var lt *Term
			if r.S.K == KFP {
				lt = c.FLt(t, r)
			} else {
				lt = c.Slt(t, r)
			}
			if fn.Name() == "max" {
				lt = c.Not(lt)
			}
			r = c.Ite(lt, t, r)
		}
		return r
	}
	panic(unsupported("builtin " + fn.Name()))
}

func (m *Machine) doRecover(caller *frame) value {
	if caller != nil && !caller.panicking && caller.caller != nil && caller.caller.panicking {
		caller.caller.panicking = false
		p := caller.caller.panic
		caller.caller.panic = nil
		switch p := p.(type) {
		case targetPanic:
			return p.v
		default:
			panic(p)
		}
	}
	return iface{}
}

// ---------------------------------------------------------------------
// maps (association lists)

func (m *Machine) keyEq(fr *frame, mp *MapV, a, b value) bool {
	t := m.equals(fr, mp.kt, a, b)
	return m.branch(t)
}

func (m *Machine) mapFind(fr *frame, mp *MapV, key value) int {
	if i, ok := key.(iface); ok && i.t != nil && !types.Comparable(i.t) {
		msg := "runtime error: hash of unhashable type " + shortPkg(typeString(i.t))
		panic(targetPanic{v: iface{t: m.prog.rtErrType, v: mkStr(msg)}, site: siteName(fr.fn), msg: msg})
	}
	for i, k := range mp.keys {
		if m.keyEq(fr, mp, k, key) {
			return i
		}
	}
	return -1
}

func (m *Machine) lookup(fr *frame, instr *ssa.Lookup, x, key value) value {
	mp, ok := x.(*MapV)
	if !ok {
		panic(unsupported(fmt.Sprintf("lookup in %T", x)))
	}
	vt := instr.X.Type().Underlying().(*types.Map).Elem()
	var v value
	found := false
	if mp != nil {
		if i := m.mapFind(fr, mp, key); i >= 0 {
			v = copyVal(mp.vals[i])
			found = true
		}
	}
	if !found {
		v = zero(vt)
	}
	if instr.CommaOk {
		return tuple{v, mkBool(found)}
	}
	return v
}

func (m *Machine) mapUpdate(fr *frame, mp *MapV, key, val value) {
	if m.wsActive {
		// a map that existed before the monitored call is being written
		site := fr.fn.String() + " (map update)"
		dup := false
		for _, h := range m.wsHits {
			if h == site {
				dup = true
			}
		}
		if !dup && !m.freshMaps[mp] {
			m.wsHits = append(m.wsHits, site)
		}
	}
	if i := m.mapFind(fr, mp, key); i >= 0 {
		mp.vals[i] = copyVal(val)
		return
	}
	mp.keys = append(mp.keys, key)
	mp.vals = append(mp.vals, copyVal(val))
}
