package main

import (
	"encoding/json"
	"fmt"
	"os"
	"runtime"
	"strconv"
	"strings"
)

func usage() {
	fmt.Fprintln(os.Stderr, `usage:
  symgo run <pkg-rel-dir> <HarnessFunc> [name=value ...]   explore one harness, print the result
  symgo check <property-id> quick|thorough                 run a registered check
  symgo replay <path>                                      replay a recorded counterexample
  symgo selftest                                           engine self-tests`)
	os.Exit(2)
}

func main() {
	if len(os.Args) < 2 {
		usage()
	}
	switch os.Args[1] {
	case "run":
		cmdRun(os.Args[2:])
	case "check":
		os.Exit(cmdCheck(os.Args[2:]))
	case "replay":
		os.Exit(cmdReplay(os.Args[2:]))
	case "selftest":
		os.Exit(cmdSelftest(os.Args[2:]))
	default:
		usage()
	}
}

func defaultOpts() ExploreOpts {
	w := runtime.NumCPU()
	if v := os.Getenv("VERIF_WORKERS"); v != "" {
		w, _ = strconv.Atoi(v)
	}
	return ExploreOpts{Workers: w, Budget: 3_000_000, SolverKind: envOr("VERIF_SOLVER", "z3"), TimeoutMs: 20000, Verbose: os.Getenv("VERIF_VERBOSE") != ""}
}

func cmdRun(args []string) {
	if len(args) < 2 {
		usage()
	}
	rel, fn := args[0], args[1]
	params := map[string]int{}
	for _, a := range args[2:] {
		kv := strings.SplitN(a, "=", 2)
		n, _ := strconv.Atoi(kv[1])
		params[kv[0]] = n
	}
	sc, err := newScratch()
	if err != nil {
		panic(err)
	}
	defer sc.Close()
	p, pkgs, err := loadProgram([]string{rel}, sc)
	if err != nil {
		fmt.Fprintln(os.Stderr, err)
		os.Exit(2)
	}
	opts := defaultOpts()
	hr := explore(p, pkgs[rel], fn, params, opts)
	printHarnessResult(hr)
}

func printHarnessResult(hr *HarnessResult) {
	fmt.Printf("harness %s params=%v paths=%d steps=%d wall=%.2fs outcomes=%v unknowns=%d\n", hr.Name, hr.Params, hr.Paths, hr.Steps, hr.WallS, hr.Outcomes, hr.Unknowns)
	fmt.Printf("  solver: queries=%d sat=%d unsat=%d unknown=%d errors=%d time=%.2fs\n", gStats.Queries, gStats.Sat, gStats.Unsat, gStats.Unknown, gStats.Errors, float64(gStats.TimeNs)/1e9)
	fmt.Printf("  assert reach: %v\n", hr.AssertReach)
	for k, n := range hr.Unsupported {
		fmt.Printf("  UNSUPPORTED x%d: %s\n", n, k)
	}
	for _, e := range hr.EngineErrs {
		fmt.Printf("  ENGINE ERROR: %s\n", firstLineOf(e))
		if os.Getenv("VERIF_VERBOSE") != "" {
			fmt.Println(e)
		}
	}
	for sig, a := range hr.Violations {
		var mj []byte
		if a.First != nil {
			mj, _ = json.Marshal(modelForJSON(a.First.Model, a.First.Choices))
		}
		fmt.Printf("  VIOLATION-CANDIDATE %s x%d msg=%q model=%s\n", sig, a.Count, a.Msg, mj)
	}
	for l, n := range hr.Leads {
		fmt.Printf("  observe x%d: %s\n", n, l)
	}
}
