package main

// `symgo check <id> <tier>`: run the registered harness set of a property,
// replay counterexamples natively, apply known findings, write evidence.

import (
	"crypto/sha1"
	"encoding/json"
	"fmt"
	"os"
	"path/filepath"
	"regexp"
	"sort"
	"strconv"
	"strings"
	"time"

	"golang.org/x/tools/go/ssa"
)

type HarnessRun struct {
	Pkg        string         `json:"pkg"`
	Func       string         `json:"func"`
	Params     map[string]int `json:"params"`
	Budget     int64          `json:"budget,omitempty"`
	NoDoneOK   bool           `json:"no_done_ok,omitempty"`
	Note       string         `json:"note,omitempty"`
	TimeoutMs  int            `json:"solver_timeout_ms,omitempty"`
	Concrete   int            `json:"differential_runs,omitempty"`
}

type CheckSpec struct {
	ID          string       `json:"id"`
	Title       string       `json:"title"`
	Quick       []HarnessRun `json:"quick"`
	Thorough    []HarnessRun `json:"thorough"`
	Assumptions []string     `json:"assumptions"`
	Stubs       []string     `json:"stubs"`
	Outside     []string     `json:"outside"`
}

type KnownFinding struct {
	Property  string `json:"property"`
	Harness   string `json:"harness"`   // regexp
	Signature string `json:"signature"` // regexp
	Status    string `json:"status"`    // known | fixed
	What      string `json:"what"`
	Commit    string `json:"commit,omitempty"`
}

func loadChecks() (map[string]*CheckSpec, error) {
	b, err := os.ReadFile(filepath.Join(verifDir, "checks.json"))
	if err != nil {
		return nil, err
	}
	var specs []*CheckSpec
	if err := json.Unmarshal(b, &specs); err != nil {
		return nil, fmt.Errorf("checks.json: %v", err)
	}
	m := map[string]*CheckSpec{}
	for _, s := range specs {
		m[s.ID] = s
	}
	return m, nil
}

func loadKnown() ([]KnownFinding, error) {
	b, err := os.ReadFile(filepath.Join(verifDir, "known_findings.json"))
	if err != nil {
		if os.IsNotExist(err) {
			return nil, nil
		}
		return nil, err
	}
	var f struct {
		Findings []KnownFinding `json:"findings"`
	}
	if err := json.Unmarshal(b, &f); err != nil {
		return nil, err
	}
	return f.Findings, nil
}

func matchKnown(kfs []KnownFinding, prop, harness, sig string) *KnownFinding {
	for i := range kfs {
		k := &kfs[i]
		if k.Property != prop || k.Status != "known" {
			continue
		}
		hre, err1 := regexp.Compile("^(?:" + k.Harness + ")$")
		sre, err2 := regexp.Compile("^(?:" + k.Signature + ")$")
		if err1 != nil || err2 != nil {
			continue
		}
		if hre.MatchString(harness) && sre.MatchString(sig) {
			return k
		}
	}
	return nil
}

type vioReport struct {
	Harness   string
	Pkg       string
	Sig       string
	Msg       string
	Count     int
	Native    string
	Confirmed bool
	Known     *KnownFinding
	Replay    string
	Case      replayCase
}

func cmdCheck(args []string) int {
	if len(args) < 2 {
		usage()
	}
	id, tier := args[0], args[1]
	if tier != "quick" && tier != "thorough" {
		usage()
	}
	t0 := time.Now()
	seed := 0
	if v := os.Getenv("VERIF_SEED"); v != "" {
		seed, _ = strconv.Atoi(v)
	}
	specs, err := loadChecks()
	if err != nil {
		fmt.Fprintln(os.Stderr, err)
		return 2
	}
	spec := specs[id]
	if spec == nil {
		fmt.Fprintf(os.Stderr, "no check registered for %s\n", id)
		return 2
	}
	runs := spec.Quick
	if tier == "thorough" {
		runs = spec.Thorough
	}
	kfs, err := loadKnown()
	if err != nil {
		fmt.Fprintln(os.Stderr, "known_findings.json:", err)
		return 2
	}
	sc, err := newScratch()
	if err != nil {
		fmt.Fprintln(os.Stderr, err)
		return 2
	}
	defer sc.Close()
	relSet := map[string]bool{}
	var rels []string
	for _, r := range runs {
		if !relSet[r.Pkg] {
			relSet[r.Pkg] = true
			rels = append(rels, r.Pkg)
		}
	}
	tl := time.Now()
	p, pkgs, err := loadProgram(rels, sc)
	if err != nil {
		fmt.Fprintln(os.Stderr, "load:", err)
		writeEvidenceFailure(id, tier, seed, "load failed: "+err.Error(), time.Since(t0).Seconds())
		return 2
	}
	loadS := time.Since(tl).Seconds()

	var results []*HarnessResult
	inconclusive := []string{}
	for _, r := range runs {
		opts := defaultOpts()
		if r.Budget > 0 {
			opts.Budget = r.Budget
		}
		if r.TimeoutMs > 0 {
			opts.TimeoutMs = r.TimeoutMs
		}
		hr := explore(p, pkgs[r.Pkg], r.Func, r.Params, opts)
		hr.Pkg = r.Pkg
		results = append(results, hr)
		fmt.Printf("[%s %s] %s %v: paths=%d steps=%d outcomes=%v candidates=%d wall=%.1fs\n", id, tier, r.Func, r.Params, hr.Paths, hr.Steps, hr.Outcomes, len(hr.Violations), hr.WallS)
		if hr.Unknowns > 0 {
			inconclusive = append(inconclusive, fmt.Sprintf("%s: %d solver unknown/timeout answers", r.Func, hr.Unknowns))
		}
		for k, n := range hr.Unsupported {
			inconclusive = append(inconclusive, fmt.Sprintf("%s: unsupported construct on %d paths: %s", r.Func, n, k))
		}
		for _, e := range hr.EngineErrs {
			inconclusive = append(inconclusive, fmt.Sprintf("%s: engine error: %s", r.Func, firstLineOf(e)))
		}
		if hr.Truncated {
			inconclusive = append(inconclusive, r.Func+": exploration truncated")
		}
		if hr.Outcomes["infeasible"] > 0 {
			inconclusive = append(inconclusive, fmt.Sprintf("%s: %d paths ended infeasible", r.Func, hr.Outcomes["infeasible"]))
		}
		if hr.AssertReach["<done>"] == 0 && !r.NoDoneOK {
			// vacuity: tolerated only if a (known or new) violation explains it
			if len(hr.Violations) == 0 {
				inconclusive = append(inconclusive, r.Func+": no path reaches vDone (vacuous harness)")
			}
		}
	}

	// ---- native replay of counterexamples and witnesses ----
	var reports []*vioReport
	validated := 0
	byPkg := map[string][]*vioReport{}
	witnesses := map[string][]*vioReport{}
	for i, hr := range results {
		sigs := make([]string, 0, len(hr.Violations))
		for s := range hr.Violations {
			sigs = append(sigs, s)
		}
		sort.Strings(sigs)
		for _, s := range sigs {
			a := hr.Violations[s]
			rep := &vioReport{Harness: hr.Name, Pkg: hr.Pkg, Sig: s, Msg: a.Msg, Count: a.Count}
			if a.First == nil {
				inconclusive = append(inconclusive, fmt.Sprintf("%s: candidate %s has no model", hr.Name, s))
				continue
			}
			rep.Case = replayCase{Harness: hr.Name, Model: a.First.Model, Choices: a.First.Choices, Params: runs[i].Params}
			reports = append(reports, rep)
			byPkg[hr.Pkg] = append(byPkg[hr.Pkg], rep)
		}
		for _, wit := range hr.Witnesses {
			w := &vioReport{Harness: hr.Name, Pkg: hr.Pkg, Sig: "<done>"}
			w.Case = replayCase{Harness: hr.Name, Model: wit.Model, Choices: wit.Choices, Params: runs[i].Params}
			witnesses[hr.Pkg] = append(witnesses[hr.Pkg], w)
		}
	}
	for _, rel := range rels {
		all := append(append([]*vioReport{}, byPkg[rel]...), witnesses[rel]...)
		if len(all) == 0 {
			continue
		}
		cases := make([]replayCase, len(all))
		for i, r := range all {
			cases[i] = r.Case
		}
		outs, err := nativeReplay(rel, cases, false)
		if err != nil {
			inconclusive = append(inconclusive, "native replay failed: "+firstLineOf(err.Error()))
			fmt.Fprintln(os.Stderr, err)
			continue
		}
		// write-set candidates that the sequential replay does not expose: two goroutines under -race
		var raceIdx []int
		for i, r := range all {
			if strings.HasPrefix(r.Sig, "ws:") && !outcomeMatches(r.Sig, outs[i]) {
				raceIdx = append(raceIdx, i)
			}
		}
		if len(raceIdx) > 0 {
			rc := make([]replayCase, len(raceIdx))
			for k, i := range raceIdx {
				rc[k] = cases[i]
			}
			routs, rerr := nativeReplay(rel, rc, true)
			if rerr != nil {
				inconclusive = append(inconclusive, "native race replay failed: "+firstLineOf(rerr.Error()))
				fmt.Fprintln(os.Stderr, rerr)
			} else {
				for k, i := range raceIdx {
					outs[i] = routs[k]
				}
			}
		}
		for i, r := range all {
			r.Native = outs[i]
			r.Confirmed = outcomeMatches(sigBase(r.Sig), outs[i])
			if r.Confirmed {
				validated++
			} else if r.Sig == "<done>" {
				inconclusive = append(inconclusive, fmt.Sprintf("%s: reachability witness did not replay natively (native: %s)", r.Harness, outs[i]))
			}
		}
	}

	// ---- verdicts ----
	violations := 0
	knownCount := 0
	for _, r := range reports {
		if !r.Confirmed {
			inconclusive = append(inconclusive, fmt.Sprintf("%s: counterexample for %s did not reproduce natively (native: %s)", r.Harness, r.Sig, r.Native))
			continue
		}
		if k := matchKnown(kfs, id, r.Harness, r.Sig); k != nil {
			r.Known = k
			knownCount++
			continue
		}
		violations++
		r.Replay = saveReplay(id, r)
	}
	seenKnown := map[string]bool{}
	for _, r := range reports {
		if r.Known != nil {
			key := r.Known.Signature + "|" + r.Known.What
			if !seenKnown[key] {
				seenKnown[key] = true
				fmt.Printf("KNOWN-FINDING: property=%s %s\n", id, r.Known.What)
			}
		}
	}
	for _, r := range reports {
		if r.Confirmed && r.Known == nil {
			fmt.Printf("VIOLATION property=%s replay=%s\n", id, r.Replay)
			fmt.Printf("  harness=%s signature=%s paths=%d native=%q\n", r.Harness, r.Sig, r.Count, r.Native)
		}
	}
	for _, s := range inconclusive {
		fmt.Printf("INCONCLUSIVE: %s\n", s)
	}
	writeEvidence(id, tier, seed, spec, runs, results, reports, validated, violations, inconclusive, loadS, time.Since(t0).Seconds())
	fmt.Printf("[%s %s] paths=%d queries=%d solver=%.1fs wall=%.1fs violations=%d known=%d inconclusive=%d\n", id, tier,
		totalPaths(results), gStats.Queries, float64(gStats.TimeNs)/1e9, time.Since(t0).Seconds(), violations, knownCount, len(inconclusive))
	if violations > 0 {
		return 1
	}
	if len(inconclusive) > 0 {
		return 2
	}
	return 0
}

// sigBase strips the "@site" suffix of write-set signatures.
func sigBase(s string) string { return s }

func totalPaths(rs []*HarnessResult) int {
	n := 0
	for _, r := range rs {
		n += r.Paths
	}
	return n
}

func firstLineOf(s string) string {
	if i := strings.IndexByte(s, '\n'); i >= 0 {
		return s[:i]
	}
	return s
}

type replayFile struct {
	Property  string     `json:"property"`
	Pkg       string     `json:"pkg"`
	Signature string     `json:"signature"`
	Message   string     `json:"message"`
	Native    string     `json:"native_outcome"`
	Case      replayCase `json:"case"`
	Command   string     `json:"command"`
}

func saveReplay(id string, r *vioReport) string {
	h := sha1.Sum([]byte(r.Harness + "|" + r.Sig))
	dir := filepath.Join(envOr("VERIF_REPLAY_DIR", filepath.Join(verifDir, "replays")), id, fmt.Sprintf("%s-%x", r.Harness, h[:4]))
	os.MkdirAll(dir, 0o755)
	f := filepath.Join(dir, "case.json")
	rf := replayFile{Property: id, Pkg: r.Pkg, Signature: r.Sig, Message: r.Msg, Native: r.Native, Case: r.Case,
		Command: "bin/check --replay " + f}
	b, _ := json.MarshalIndent(rf, "", " ")
	os.WriteFile(f, b, 0o644)
	return f
}

func cmdReplay(args []string) int {
	if len(args) < 1 {
		usage()
	}
	b, err := os.ReadFile(args[0])
	if err != nil {
		fmt.Fprintln(os.Stderr, err)
		return 2
	}
	var rf replayFile
	if err := json.Unmarshal(b, &rf); err != nil {
		fmt.Fprintln(os.Stderr, err)
		return 2
	}
	outs, err := nativeReplay(rf.Pkg, []replayCase{rf.Case}, false)
	if err != nil {
		fmt.Fprintln(os.Stderr, err)
		return 2
	}
	fmt.Printf("predicted=%s native=%s\n", rf.Signature, outs[0])
	if outcomeMatches(rf.Signature, outs[0]) {
		fmt.Printf("VIOLATION property=%s replay=%s\n", rf.Property, args[0])
		return 1
	}
	fmt.Println("not reproduced on the current tree")
	return 0
}

// ---------------------------------------------------------------------
// evidence

func writeEvidenceFailure(id, tier string, seed int, why string, wall float64) {
	ev := map[string]interface{}{
		"property_id": id, "tier": tier, "seed": seed, "level": "model_checking",
		"coverage": map[string]interface{}{"evaluations": 0, "distinct_nontrivial": 0, "explanation": why},
		"wall_s":   wall, "violations": 0, "inconclusive": []string{why},
	}
	writeJSON(filepath.Join(envOr("VERIF_EVIDENCE_DIR", filepath.Join(verifDir, "evidence")), id+".json"), ev)
}

func writeJSON(path string, v interface{}) {
	os.MkdirAll(filepath.Dir(path), 0o755)
	b, _ := json.MarshalIndent(v, "", " ")
	os.WriteFile(path, append(b, '\n'), 0o644)
}

func writeEvidence(id, tier string, seed int, spec *CheckSpec, runs []HarnessRun, results []*HarnessResult, reports []*vioReport,
	validated, violations int, inconclusive []string, loadS, wall float64) {
	funcs := map[string]struct{}{}
	var steps int64
	paths := 0
	var samples []interface{}
	var harnesses []interface{}
	reach := map[string]int{}
	for i, hr := range results {
		for f := range hr.Funcs {
			if strings.Contains(f, repoModule) && !strings.Contains(f, ".H_") && !strings.Contains(f, "zz_verif") {
				funcs[shortPkg(f)] = struct{}{}
			}
		}
		steps += hr.Steps
		paths += hr.Paths
		for _, s := range hr.Samples {
			if len(samples) < 6 {
				samples = append(samples, s)
			}
		}
		for k, v := range hr.AssertReach {
			reach[hr.Name+"/"+k] = v
		}
		hm := map[string]interface{}{
			"harness": hr.Name, "package": hr.Pkg, "bounds": runs[i].Params, "feasible_paths": hr.Paths, "outcomes": hr.Outcomes,
			"ssa_instructions": hr.Steps, "assertions_reached": len(hr.AssertReach), "wall_s": round2(hr.WallS), "note": runs[i].Note,
			"sat_answers_found_under_narrowed_ranges_after_unknown": hr.Narrowed,
		}
		// vNote verdicts (stronger-than-the-property statements such as inductiveness): recorded, never reported
		notes := map[string]int{}
		for l, n := range hr.Leads {
			if strings.HasPrefix(l, "note:") {
				notes[strings.TrimPrefix(l, "note:")] += n
			}
		}
		if len(notes) > 0 {
			hm["notes"] = notes
		}
		harnesses = append(harnesses, hm)
	}
	for _, r := range reports {
		samples = append(samples, map[string]interface{}{
			"harness": r.Harness, "outcome": "counterexample", "signature": r.Sig, "native": r.Native, "confirmed": r.Confirmed,
			"known_finding": r.Known != nil, "model": modelForJSON(r.Case.Model, r.Case.Choices),
		})
	}
	if len(samples) == 0 {
		samples = append(samples, map[string]interface{}{"note": "no completed path produced a sample"})
	}
	fl := make([]string, 0, len(funcs))
	for f := range funcs {
		fl = append(fl, f)
	}
	sort.Strings(fl)
	if paths == 0 {
		paths = 0
	}
	cov := map[string]interface{}{
		"states":                        paths,
		"transitions":                   steps,
		"traces_validated_against_impl": validated,
		"samples":                       samples,
		"exhaustive":                    len(inconclusive) == 0,
		"evaluations":                   paths,
		"distinct_nontrivial":           paths,
		"rule":                          "one evaluation = one feasible path of a harness within its bound (all feasible paths are enumerated; every path condition and assertion is decided by the SMT solver); distinct by decision trace",
		"harnesses":                     harnesses,
		"functions_encoded":             fl,
		"assertion_reach":               reach,
		"queries": map[string]interface{}{
			"total": gStats.Queries, "sat": gStats.Sat, "unsat": gStats.Unsat, "unknown": gStats.Unknown, "errors": gStats.Errors,
		},
		"solver_time_s":  round2(float64(gStats.TimeNs) / 1e9),
		"solver":         envOr("VERIF_SOLVER", "z3") + " (one incremental process per worker)",
		"load_ssa_s":     round2(loadS),
		"stubs":          spec.Stubs,
		"outside_claim":  spec.Outside,
		"inconclusive":   inconclusive,
		"explanation":    "bounded symbolic execution of the real go/ssa of /repo's working tree; verdict per path by SMT; counterexamples replayed natively",
	}
	ev := map[string]interface{}{
		"property_id": id, "tier": tier, "seed": seed, "level": "model_checking",
		"coverage": cov, "assumptions": spec.Assumptions, "wall_s": round2(wall), "violations": violations,
	}
	writeJSON(filepath.Join(envOr("VERIF_EVIDENCE_DIR", filepath.Join(verifDir, "evidence")), id+".json"), ev)
}

func round2(x float64) float64 { return float64(int64(x*100+0.5)) / 100 }

var _ = ssa.InstantiateGenerics
