package main

// Native replay: the harness sources are compiled by the ordinary Go
// compiler together with a shim that feeds the solver's model to the
// nondet intrinsics; only natively reproduced failures are reported.

import (
	"bufio"
	"bytes"
	"context"
	"encoding/json"
	"fmt"
	"os"
	"os/exec"
	"path/filepath"
	"regexp"
	"strconv"
	"strings"
	"time"
)

type replayCase struct {
	Harness string            `json:"harness"`
	Model   map[string]uint64 `json:"model"`
	Choices map[string]int64  `json:"choices"`
	Params  map[string]int    `json:"params"`
}

const sharedShimSrc = `package verifshim

import (
	"fmt"
	"math"
	"reflect"
	"runtime"
	"strings"
	"sync"
)

type Case struct {
	Harness string
	Model   map[string]uint64
	Choices map[string]int64
	Params  map[string]int
}

var Cur *Case
var Occ map[string]int
var ReachedDone bool
var Observed []string

type AssertFail struct{ ID string }
type AssumeFail struct{}

func name(n string) string {
	k := Occ[n]
	Occ[n] = k + 1
	return fmt.Sprintf("%s#%d", n, k)
}
func Bits(n0 string) uint64 {
	n := name(n0)
	if v, ok := Cur.Model[n]; ok {
		return v
	}
	if v, ok := Cur.Choices[n]; ok {
		return uint64(v)
	}
	return 0
}
func Choice(n0 string, n int) int {
	v := int(int64(Bits(n0)))
	if v < 0 || v >= n {
		panic(AssumeFail{})
	}
	return v
}
func Param(n string) int {
	v, ok := Cur.Params[n]
	if !ok {
		panic("harness parameter not configured: " + n)
	}
	return v
}
func Assume(c bool) {
	if !c {
		panic(AssumeFail{})
	}
}
func Assert(c bool, id string) {
	if !c {
		panic(AssertFail{id})
	}
}
func F64(n string) float64 { return math.Float64frombits(Bits(n)) }
func F32(n string) float32 { return math.Float32frombits(uint32(Bits(n))) }
func SameBits64(a, b float64) bool {
	return math.Float64bits(a) == math.Float64bits(b) || (a != a && b != b)
}
func SameBits32(a, b float32) bool {
	return math.Float32bits(a) == math.Float32bits(b) || (a != a && b != b)
}
func SameState(a, b any) bool { return reflect.DeepEqual(a, b) }
func Observe(label string, v any) {
	Observed = append(Observed, fmt.Sprintf("%s=%s", label, Describe(v)))
}
func Describe(v any) string {
	switch x := v.(type) {
	case nil:
		return "nil"
	case string:
		return fmt.Sprintf("%q", x)
	case bool:
		return fmt.Sprintf("%v", x)
	case float32:
		return fmt.Sprintf("%v", float64(x))
	}
	return fmt.Sprintf("%v", v)
}

// Concurrently runs f(0) and f(1) in two goroutines (the body must not call intrinsics);
// under -race a conflicting access of the two is reported by the race detector.
func Concurrently(f func(i int)) {
	var wg sync.WaitGroup
	var mu sync.Mutex
	var failure any
	for i := 0; i < 2; i++ {
		wg.Add(1)
		go func(i int) {
			defer wg.Done()
			defer func() {
				if r := recover(); r != nil {
					mu.Lock()
					failure = r
					mu.Unlock()
				}
			}()
			f(i)
		}(i)
	}
	wg.Wait()
	if failure != nil {
		panic(failure)
	}
}

// PanicSite finds the function in which the current panic was raised.
func PanicSite() string {
	pcs := make([]uintptr, 64)
	n := runtime.Callers(2, pcs)
	frames := runtime.CallersFrames(pcs[:n])
	seenPanic := false
	for {
		f, more := frames.Next()
		if strings.HasPrefix(f.Function, "runtime.") || f.Function == "" {
			if f.Function == "runtime.gopanic" || strings.HasPrefix(f.Function, "runtime.panic") || strings.HasPrefix(f.Function, "runtime.goPanic") || f.Function == "runtime.sigpanic" {
				seenPanic = true
			}
		} else if seenPanic {
			return f.Function
		}
		if !more {
			break
		}
	}
	return "?"
}
` + "\n"

const shimSrc = `
import verifshim "` + repoModule + `/zzverif/shim"

func vRune(name string) rune     { return rune(int32(uint32(verifshim.Bits(name)))) }
func vInt(name string) int       { return int(int64(verifshim.Bits(name))) }
func vInt64(name string) int64   { return int64(verifshim.Bits(name)) }
func vInt32(name string) int32   { return int32(uint32(verifshim.Bits(name))) }
func vUint32(name string) uint32 { return uint32(verifshim.Bits(name)) }
func vUint(name string) uint     { return uint(verifshim.Bits(name)) }
func vBool(name string) bool     { return verifshim.Bits(name)&1 != 0 }
func vF64(name string) float64   { return verifshim.F64(name) }
func vF32(name string) float32   { return verifshim.F32(name) }
func vChoice(name string, n int) int { return verifshim.Choice(name, n) }
func vParam(name string) int     { return verifshim.Param(name) }
func vAssume(c bool)             { verifshim.Assume(c) }
func vAssert(c bool, id string)  { verifshim.Assert(c, id) }
func vDone()                     { verifshim.ReachedDone = true }
func vAnd(a, b bool) bool        { return a && b }
func vOr(a, b bool) bool         { return a || b }
func vImp(a, b bool) bool        { return !a || b }
func vIteInt(c bool, a, b int) int {
	if c {
		return a
	}
	return b
}
func vIteRune(c bool, a, b rune) rune {
	if c {
		return a
	}
	return b
}
func vIteBool(c bool, a, b bool) bool {
	if c {
		return a
	}
	return b
}
func vIteI64(c bool, a, b int64) int64 {
	if c {
		return a
	}
	return b
}
func vIteF64(c bool, a, b float64) float64 {
	if c {
		return a
	}
	return b
}
func vConcrete(x int) int           { return x }
func vIsNaN64(x float64) bool       { return x != x }
func vIsNaN32(x float32) bool       { return x != x }
func vSameBits64(a, b float64) bool { return verifshim.SameBits64(a, b) }
func vSameBits32(a, b float32) bool { return verifshim.SameBits32(a, b) }
func vWriteSetBegin()               {}
func vWriteSetEnd(id string)        {}
func vObserve(label string, v any)  { verifshim.Observe(label, v) }
func vConcurrently(f func(i int))   { verifshim.Concurrently(f) }
func vNote(c bool, id string)       {}
func vSameState(a, b any) bool      { return verifshim.SameState(a, b) }
`

const driverSrc = `
import (
	verifshim "` + repoModule + `/zzverif/shim"
	"encoding/json"
	"fmt"
	"os"
	"strings"
	"testing"
	"time"
)

func verifRunCase(c *verifshim.Case) (outcome string) {
	done := make(chan string, 1)
	go func() {
		defer func() {
			if r := recover(); r != nil {
				switch r := r.(type) {
				case verifshim.AssertFail:
					done <- "assert:" + r.ID
				case verifshim.AssumeFail:
					done <- "assume-failed"
				default:
					site := verifshim.PanicSite()
					msg := fmt.Sprint(r)
					if e, ok := r.(error); ok {
						msg = e.Error()
					}
					done <- "panic@" + site + " :: " + strings.ReplaceAll(msg, "\n", " ")
				}
			}
		}()
		verifshim.Cur = c
		verifshim.Occ = map[string]int{}
		verifshim.ReachedDone = false
		verifshim.Observed = nil
		f, ok := verifHarnesses[c.Harness]
		if !ok {
			done <- "no-such-harness"
			return
		}
		f()
		if verifshim.ReachedDone {
			done <- "done"
		} else {
			done <- "returned-without-done"
		}
	}()
	select {
	case o := <-done:
		return o
	case <-time.After(10 * time.Second):
		return "timeout"
	}
}

func TestVerifReplay(t *testing.T) {
	b, err := os.ReadFile(os.Getenv("VERIF_REPLAY_CASES"))
	if err != nil {
		t.Fatal(err)
	}
	var cases []*verifshim.Case
	if err := json.Unmarshal(b, &cases); err != nil {
		t.Fatal(err)
	}
	start := 0
	fmt.Sscanf(os.Getenv("VERIF_REPLAY_START"), "%d", &start)
	for i := start; i < len(cases); i++ {
		o := verifRunCase(cases[i])
		obs := ""
		if len(verifshim.Observed) > 0 && o != "timeout" {
			obs = " ## " + strings.Join(verifshim.Observed, " | ")
		}
		fmt.Printf("REPLAY-RESULT %d %s%s\n", i, o, obs)
		if o == "timeout" {
			// the runaway goroutine still owns the shared state
			os.Stdout.Sync()
			os.Exit(0)
		}
	}
}
`

var replayResRe = regexp.MustCompile(`^REPLAY-RESULT (\d+) (.*)$`)

// nativeReplay runs the cases natively against /repo's current tree and
// returns one outcome string per case.
func nativeReplay(rel string, cases []replayCase, race bool) ([]string, error) {
	hps, err := scanHarnessPkgs()
	if err != nil {
		return nil, err
	}
	hp := hps[rel]
	if hp == nil {
		return nil, fmt.Errorf("no harness package %q", rel)
	}
	sc, err := newScratch()
	if err != nil {
		return nil, err
	}
	defer sc.Close()
	overlay := map[string]string{}
	put := func(name, content string) error {
		f := filepath.Join(sc.dir, strings.ReplaceAll(rel, "/", "_")+"_"+name)
		if err := os.WriteFile(f, []byte(content), 0o644); err != nil {
			return err
		}
		overlay[filepath.Join(repoDir, rel, name)] = f
		return nil
	}
	{
		sf := filepath.Join(sc.dir, "verifshim.go")
		if err := os.WriteFile(sf, []byte(sharedShimSrc), 0o644); err != nil {
			return nil, err
		}
		overlay[filepath.Join(repoDir, "zzverif", "shim", "shim.go")] = sf
	}
	for orel, ohp := range hps {
		for _, f := range ohp.files {
			overlay[filepath.Join(repoDir, orel, "zz_verif_"+filepath.Base(f))] = f
		}
		sf := filepath.Join(sc.dir, strings.ReplaceAll(orel, "/", "_")+"_zz_verif_shim.go")
		if err := os.WriteFile(sf, []byte("package "+ohp.pkgName+"\n"+shimSrc), 0o644); err != nil {
			return nil, err
		}
		overlay[filepath.Join(repoDir, orel, "zz_verif_shim.go")] = sf
	}
	var reg strings.Builder
	reg.WriteString("package " + hp.pkgName + "\n" + driverSrc + "\nvar verifHarnesses = map[string]func(){\n")
	for _, f := range hp.funcs {
		fmt.Fprintf(&reg, "\t%q: %s,\n", f, f)
	}
	reg.WriteString("}\n")
	if err := put("zz_verif_replay_test.go", reg.String()); err != nil {
		return nil, err
	}
	ovj, _ := json.Marshal(map[string]interface{}{"Replace": overlay})
	ovf := filepath.Join(sc.dir, "overlay.json")
	os.WriteFile(ovf, ovj, 0o644)
	cj, _ := json.Marshal(cases)
	cf := filepath.Join(sc.dir, "cases.json")
	os.WriteFile(cf, cj, 0o644)

	outcomes := make([]string, len(cases))
	start := 0
	// build the test binary once (the package directory may be virtual, so
	// "go test" cannot chdir into it; the binary is run from the scratch dir)
	bin := filepath.Join(sc.dir, "replay.test")
	{
		args := []string{"test", "-c", "-vet=off", "-overlay", ovf, "-modfile=" + sc.modfile, "-o", bin}
		if race {
			args = append(args, "-race")
		}
		args = append(args, "./"+rel)
		cmd := exec.Command("go", args...)
		cmd.Dir = repoDir
		cmd.Env = goEnv()
		if out, err := cmd.CombinedOutput(); err != nil {
			return outcomes, fmt.Errorf("native replay build failed (%v):\n%s", err, tail(string(out), 4000))
		}
	}
	for start < len(cases) {
		ctx, cancel := context.WithTimeout(context.Background(), 10*time.Minute)
		cmd := exec.CommandContext(ctx, bin, "-test.v", "-test.run", "^TestVerifReplay$", "-test.timeout", "8m")
		cmd.Dir = sc.dir
		cmd.Env = append(goEnv(), "VERIF_REPLAY_CASES="+cf, "VERIF_REPLAY_START="+strconv.Itoa(start), "GORACE=halt_on_error=1", "TZ=UTC")
		var out bytes.Buffer
		cmd.Stdout = &out
		cmd.Stderr = &out
		runErr := cmd.Run()
		cancel()
		last := start - 1
		scn := bufio.NewScanner(bytes.NewReader(out.Bytes()))
		scn.Buffer(make([]byte, 1<<20), 1<<24)
		for scn.Scan() {
			if mm := replayResRe.FindStringSubmatch(scn.Text()); mm != nil {
				i, _ := strconv.Atoi(mm[1])
				if i >= 0 && i < len(cases) {
					outcomes[i] = mm[2]
					if i > last {
						last = i
					}
				}
			}
		}
		crashOutcome := func() string {
			if strings.Contains(out.String(), "DATA RACE") {
				return "race :: DATA RACE reported by the race detector"
			}
			return "crash :: " + firstLine(tail(out.String(), 2000))
		}
		if last < start {
			// no result line at all: the process died on case 'start' (the binary was built before)
			if runErr == nil {
				return outcomes, fmt.Errorf("native replay made no progress:\n%s", tail(out.String(), 4000))
			}
			outcomes[start] = crashOutcome()
			start++
			continue
		}
		start = last + 1
		if runErr != nil && start < len(cases) && !strings.HasPrefix(outcomes[last], "timeout") {
			// the process died (fatal error, race report with halt_on_error) on case 'start'
			outcomes[start] = crashOutcome()
			start++
		}
	}
	return outcomes, nil
}

func tail(s string, n int) string {
	if len(s) > n {
		return s[len(s)-n:]
	}
	return s
}

func firstLine(s string) string {
	for _, l := range strings.Split(s, "\n") {
		if strings.Contains(l, "fatal error") || strings.Contains(l, "panic:") {
			return l
		}
	}
	return strings.SplitN(s, "\n", 2)[0]
}

// normSite normalises a function name from SSA or from the native runtime.
func normSite(s string) string {
	s = shortPkg(s)
	s = strings.NewReplacer("(*", "", "(", "", ")", "", "*", "").Replace(s)
	s = regexp.MustCompile(`\$(\d+)`).ReplaceAllString(s, ".func$1")
	s = regexp.MustCompile(`\$bound`).ReplaceAllString(s, "-fm")
	return s
}

// outcomeMatches reports whether the native outcome confirms the predicted signature.
func outcomeMatches(sig string, native string) bool {
	obsCut := strings.Index(native, " ## ")
	if obsCut >= 0 {
		native = native[:obsCut]
	}
	switch {
	case sig == "<done>":
		return native == "done"
	case strings.HasPrefix(sig, "panic@"):
		if !strings.HasPrefix(native, "panic@") && !strings.HasPrefix(native, "crash") {
			return false
		}
		return true
	case strings.HasPrefix(sig, "budget@"):
		return native == "timeout" || strings.HasPrefix(native, "crash")
	case strings.HasPrefix(sig, "ws:"):
		// a write to pre-existing state: confirmed by the race detector on the
		// two-goroutine replay, or by one of the harness's sequential assertions
		return strings.HasPrefix(native, "race") || strings.HasPrefix(native, "assert:")
	default:
		return native == "assert:"+sig
	}
}
