package main

// Loading /repo's current working tree (plus overlay harness files) into
// go/ssa. Nothing derived from /repo is cached between runs.

import (
	"fmt"
	"go/types"
	"os"
	"path/filepath"
	"regexp"
	"sort"
	"strings"

	"golang.org/x/tools/go/packages"
	"golang.org/x/tools/go/ssa"
	"golang.org/x/tools/go/ssa/ssautil"
)

const repoModule = "github.com/pip-services3-gox/pip-services3-expressions-gox"

var (
	repoDir    = envOr("VERIF_REPO", "/repo")
	verifDir   = envOr("VERIF_DIR", "/verif")
	harnessDir = filepath.Join(verifDir, "harness")
)

func envOr(k, d string) string {
	if v := os.Getenv(k); v != "" {
		return v
	}
	return d
}

const intrinsicsDecl = `
func vRune(name string) rune
func vInt(name string) int
func vInt64(name string) int64
func vInt32(name string) int32
func vUint32(name string) uint32
func vUint(name string) uint
func vBool(name string) bool
func vF64(name string) float64
func vF32(name string) float32
func vChoice(name string, n int) int
func vParam(name string) int
func vAssume(c bool)
func vAssert(c bool, id string)
func vDone()
func vAnd(a, b bool) bool
func vOr(a, b bool) bool
func vImp(a, b bool) bool
func vIteInt(c bool, a, b int) int
func vIteRune(c bool, a, b rune) rune
func vIteBool(c bool, a, b bool) bool
func vIteI64(c bool, a, b int64) int64
func vIteF64(c bool, a, b float64) float64
func vConcrete(x int) int
func vIsNaN64(x float64) bool
func vIsNaN32(x float32) bool
func vSameBits64(a, b float64) bool
func vSameBits32(a, b float32) bool
func vWriteSetBegin()
func vWriteSetEnd(id string)
func vObserve(label string, v any)
func vConcurrently(f func(i int))
func vNote(c bool, id string)
func vSameState(a, b any) bool
`

var pkgClauseRe = regexp.MustCompile(`(?m)^package\s+(\w+)`)
var harnessFnRe = regexp.MustCompile(`(?m)^func (H_\w+)\(\)`)

type harnessPkg struct {
	rel     string   // directory relative to the repo root
	pkgName string   // package clause
	files   []string // absolute paths of harness sources under /verif/harness
	funcs   []string
}

// scanHarnessPkgs lists the harness packages under /verif/harness.
func scanHarnessPkgs() (map[string]*harnessPkg, error) {
	res := map[string]*harnessPkg{}
	err := filepath.Walk(harnessDir, func(p string, info os.FileInfo, err error) error {
		if err != nil {
			return err
		}
		if info.IsDir() || !strings.HasSuffix(p, ".go") {
			return nil
		}
		rel, _ := filepath.Rel(harnessDir, filepath.Dir(p))
		hp := res[rel]
		if hp == nil {
			hp = &harnessPkg{rel: rel}
			res[rel] = hp
		}
		src, err := os.ReadFile(p)
		if err != nil {
			return err
		}
		if m := pkgClauseRe.FindSubmatch(src); m != nil {
			hp.pkgName = string(m[1])
		}
		for _, m := range harnessFnRe.FindAllSubmatch(src, -1) {
			hp.funcs = append(hp.funcs, string(m[1]))
		}
		hp.files = append(hp.files, p)
		return nil
	})
	return res, err
}

type scratch struct {
	dir     string
	modfile string
}

func newScratch() (*scratch, error) {
	d, err := os.MkdirTemp("", "symgo-")
	if err != nil {
		return nil, err
	}
	for _, f := range []string{"go.mod", "go.sum"} {
		b, err := os.ReadFile(filepath.Join(repoDir, f))
		if err != nil {
			return nil, err
		}
		if err := os.WriteFile(filepath.Join(d, f), b, 0o644); err != nil {
			return nil, err
		}
	}
	return &scratch{dir: d, modfile: filepath.Join(d, "go.mod")}, nil
}

func (s *scratch) Close() { os.RemoveAll(s.dir) }

func goEnv() []string {
	env := os.Environ()
	env = append(env, "GOFLAGS=-mod=mod", "GOPROXY=off", "GOSUMDB=off", "GOTOOLCHAIN=local", "GOWORK=off")
	return env
}

// loadProgram loads the given harness package directories (relative to
// the repo root) with their harness files overlaid.
func loadProgram(rels []string, sc *scratch) (*Program, map[string]*ssa.Package, error) {
	hps, err := scanHarnessPkgs()
	if err != nil {
		return nil, nil, err
	}
	overlay := map[string][]byte{}
	var patterns []string
	for _, rel := range rels {
		if hps[rel] == nil {
			return nil, nil, fmt.Errorf("no harness sources for package %q", rel)
		}
		patterns = append(patterns, "./"+rel)
	}
	// every harness directory is overlaid (a harness package may use the seams
	// that another harness directory adds to a package it imports)
	for rel, hp := range hps {
		for _, f := range hp.files {
			src, err := os.ReadFile(f)
			if err != nil {
				return nil, nil, err
			}
			overlay[filepath.Join(repoDir, rel, "zz_verif_"+filepath.Base(f))] = src
		}
		overlay[filepath.Join(repoDir, rel, "zz_verif_intrinsics.go")] =
			[]byte("package " + hp.pkgName + "\n" + intrinsicsDecl)
	}
	cfg := &packages.Config{
		Mode:       packages.LoadAllSyntax,
		Dir:        repoDir,
		Env:        goEnv(),
		BuildFlags: []string{"-modfile=" + sc.modfile},
		Overlay:    overlay,
	}
	pkgs, err := packages.Load(cfg, patterns...)
	if err != nil {
		return nil, nil, err
	}
	var errs []string
	packages.Visit(pkgs, nil, func(p *packages.Package) {
		for _, e := range p.Errors {
			// body-less intrinsic declarations are expected
			if strings.Contains(e.Msg, "missing function body") {
				continue
			}
			errs = append(errs, e.Error())
		}
	})
	if len(errs) > 0 {
		sort.Strings(errs)
		if len(errs) > 20 {
			errs = errs[:20]
		}
		return nil, nil, fmt.Errorf("load errors:\n%s", strings.Join(errs, "\n"))
	}
	prog, spkgs := ssautil.AllPackages(pkgs, ssa.InstantiateGenerics)
	prog.Build()
	p := &Program{prog: prog, fset: prog.Fset, repoPrefix: repoModule, pkgByPath: map[string]*ssa.Package{}}
	p.sizes = types.SizesFor("gc", "amd64")
	// fake runtime error type: a named string type
	tn := types.NewTypeName(0, nil, "runtime.Error", nil)
	p.rtErrType = types.NewNamed(tn, types.Typ[types.String], nil)
	byRel := map[string]*ssa.Package{}
	for i, sp := range spkgs {
		if sp == nil {
			continue
		}
		p.pkgByPath[sp.Pkg.Path()] = sp
		_ = i
	}
	for _, rel := range rels {
		path := repoModule + "/" + rel
		if rel == "." {
			path = repoModule
		}
		sp := p.pkgByPath[path]
		if sp == nil {
			return nil, nil, fmt.Errorf("package %s not loaded", path)
		}
		byRel[rel] = sp
	}
	for _, sp := range prog.AllPackages() {
		p.pkgByPath[sp.Pkg.Path()] = sp
	}
	return p, byRel, nil
}
